#!/usr/bin/env python3
"""Run the checks against every seeded change under /verif/seeded/<id>/.

For each change: apply patch.diff to a scratch worktree of /repo's HEAD (never /repo
itself), run demo.py (must fail), run the quick check of the property it breaks with
VERIF_REPO pointing at the scratch worktree (must exit 1 with a VIOLATION line), revert,
run demo.py again (must pass).  Writes seeded/RESULTS.md and seeded/results.json.

usage: tools_seeded.py [id ...] [--all-checks] [--tier quick|thorough]
"""
import hashlib
import json
import os
import re
import shutil
import subprocess
import sys
import tempfile
import time

HERE = os.path.dirname(os.path.abspath(__file__))
SEEDED = os.path.join(HERE, "seeded")
PY = "/venv/bin/python"
ALL = ["C19", "C10", "C03", "C09", "C07", "C08", "C12", "C13", "C04", "C20"]


def sh(cmd, **kw):
    return subprocess.run(cmd, capture_output=True, text=True, **kw)


def main():
    args = [a for a in sys.argv[1:] if not a.startswith("--")]
    all_checks = "--all-checks" in sys.argv
    tier = "quick"
    if "--tier" in sys.argv:
        tier = sys.argv[sys.argv.index("--tier") + 1]
    ids = args or sorted(d for d in os.listdir(SEEDED) if os.path.isdir(os.path.join(SEEDED, d)))
    wt = tempfile.mkdtemp(prefix="wt_seeded_", dir="/tmp")
    os.rmdir(wt)
    r = sh(["git", "-C", "/repo", "worktree", "add", "-q", wt, "HEAD"])
    assert r.returncode == 0, r.stderr
    results = {}
    res_path = os.environ.get("SEEDED_RESULTS", os.path.join(SEEDED, "results.json"))
    if os.path.exists(res_path) and args:
        results = json.load(open(res_path))
    try:
        for sid in ids:
            d = os.path.join(SEEDED, sid)
            meta = json.load(open(os.path.join(d, "meta.json")))
            prop = meta["property"]
            rec = {"property": prop, "summary": meta.get("summary", ""), "needs": meta.get("needs", "")}
            sh(["git", "-C", wt, "reset", "-q", "--hard", "HEAD"])   # (index too: a failed 3-way leaves conflicts)
            # a change whose context was rewritten by later `fix:` commits in /repo is kept as
            # written (patch.diff, demo.py) next to its port to the repaired tree
            # (patch.rebased.diff; demo.rebased.py where the demonstration read an attribute a
            # fix has moved; rebase_note.txt says what differs)
            demo = os.path.join(d, "demo.rebased.py")
            if not os.path.exists(demo):
                demo = os.path.join(d, "demo.py")
            if os.path.exists(os.path.join(d, "rebase_note.txt")):
                rec["rebase_note"] = open(os.path.join(d, "rebase_note.txt")).read().strip()
            clean = sh([PY, demo, wt], timeout=600)
            rec["demo_clean_rc"] = clean.returncode
            ap = sh(["git", "-C", wt, "apply", os.path.join(d, "patch.diff")])
            if ap.returncode != 0:
                # /repo has moved on since the change was written (fix: commits): try a 3-way merge
                sh(["git", "-C", wt, "reset", "-q", "--hard", "HEAD"])
                ap = sh(["git", "-C", wt, "apply", "--3way", os.path.join(d, "patch.diff")])
                if ap.returncode == 0:
                    sh(["git", "-C", wt, "reset", "-q"])
                    rec["applied"] = "3way"
            if ap.returncode != 0 and os.path.exists(os.path.join(d, "patch.rebased.diff")):
                sh(["git", "-C", wt, "reset", "-q", "--hard", "HEAD"])
                ap = sh(["git", "-C", wt, "apply", os.path.join(d, "patch.rebased.diff")])
                if ap.returncode == 0:
                    rec["applied"] = "rebased"
            if ap.returncode != 0:
                rec["error"] = "patch does not apply: " + ap.stderr[-200:]
                results[sid] = rec
                continue
            bad = sh([PY, demo, wt], timeout=600)
            rec["demo_patched_rc"] = bad.returncode
            checks = ALL if all_checks else [prop]
            rec["checks"] = {}
            for p in checks:
                t0 = time.time()
                env = dict(os.environ, VERIF_REPO=wt, VERIF_SEED=os.environ.get("VERIF_SEED", "0"),
                           VERIF_SHRINK_S=os.environ.get("VERIF_SHRINK_S", "4"))
                c = sh([os.path.join(HERE, "check"), p, "--tier", tier], env=env, timeout=3600)
                classes = sorted(set(re.findall(r"violation class=(\S+)", c.stdout)))
                seeds = re.findall(r"violation class=\S+ runs=(\d+) seed=(\d+)", c.stdout)
                rec["checks"][p] = {"rc": c.returncode, "classes": classes,
                                    "first": (c.stdout.split("violation class=")[1][:400]
                                              if "violation class=" in c.stdout else ""),
                                    "harness": [l for l in c.stdout.splitlines() if l.startswith("HARNESS")][:3],
                                    "wall_s": round(time.time() - t0, 1)}
            rec["caught"] = rec["checks"][prop]["rc"] == 1
            results[sid] = rec
            print("%-14s %s demo clean=%s patched=%s -> %s %s" % (
                sid, prop, rec["demo_clean_rc"], rec["demo_patched_rc"],
                "CAUGHT" if rec["caught"] else "MISSED (rc=%s)" % rec["checks"][prop]["rc"],
                rec["checks"][prop]["classes"]), flush=True)
            # replays written while running against a mutant are not evidence about /repo
            shutil.rmtree("/dev/shm/verif_scratch_" + hashlib.sha256(os.path.abspath(wt).encode()).hexdigest()[:10], ignore_errors=True)
    finally:
        sh(["git", "-C", "/repo", "worktree", "remove", "--force", wt])
    json.dump(results, open(res_path, "w"), indent=1, sort_keys=True)
    lines = ["# Seeded changes: which check catches what", "",
             "Generated by tools_seeded.py (quick tier, VERIF_SEED=0 unless stated). "
             "`demo` = exit codes of the change's own demonstration on the clean / patched tree. "
             "† = the change was written against an earlier /repo HEAD and later `fix:` commits rewrote its context: "
             "it is applied from its hand port to the repaired tree (patch.rebased.diff, same edit).", "",
             "| id | property | what the change does | needs | demo clean/patched | caught by its check | violation classes |",
             "|---|---|---|---|---|---|---|"]
    for sid in sorted(results):
        r = results[sid]
        if "checks" not in r:
            lines.append("| %s | %s | %s | | | ERROR %s | |" % (sid, r["property"], r["summary"], r.get("error")))
            continue
        c = r["checks"][r["property"]]
        others = [p for p, x in r["checks"].items() if p != r["property"] and x["rc"] == 1]
        lines.append("| %s | %s | %s | %s | %s/%s | %s%s | %s |" % (
            sid + (" †" if r.get("applied") == "rebased" else ""), r["property"],
            r["summary"].replace("|", "/") + ((" [port: " + r["rebase_note"] + "]") if r.get("rebase_note") else ""),
            r["needs"].replace("|", "/"),
            r["demo_clean_rc"], r["demo_patched_rc"], "yes" if r["caught"] else "**no**",
            (" (also " + ",".join(others) + ")") if others else "", ", ".join(c["classes"])))
    if "SEEDED_RESULTS" not in os.environ:
        open(os.path.join(SEEDED, "RESULTS.md"), "w").write("\n".join(lines) + "\n")
    # evidence of the last sensitivity run for the checks
    return 0


if __name__ == "__main__":
    sys.exit(main())
