# -*- coding: utf-8 -*-
"""Simulated joblib backend: the simulator decides which parallel task runs.

Two modes (DESIGN.md 3.2):

* ``ooo``        - in-flight tasks run to completion one at a time, in seeded
                   order; at most ``n_jobs`` tasks are in flight, tasks enter
                   flight in dispatch (FIFO) order, as with a real worker pool.
* ``interleave`` - every in-flight task is a real thread parked on its own
                   semaphore; exactly one thread holds the baton; pre-emption
                   points are ``sys.monitoring`` PY_START events of code objects
                   under <repo>/sktime; at each point the schedule stream
                   decides whether control returns to the scheduler, which then
                   picks the next in-flight task.  Who runs is never left to
                   the OS.

Everything is a pure function of ``Schedule.seed`` and the code under test.
"""
import hashlib
import os
import random
import sys
import threading

from joblib import parallel_config, register_parallel_backend
from joblib._parallel_backends import ParallelBackendBase, SequentialBackend

STALL_TIMEOUT = float(os.environ.get("VERIF_STALL_TIMEOUT", "30"))


class HarnessStall(Exception):
    pass


class _Abort(BaseException):
    """Raised inside a parked task thread to unwind it when its Parallel call
    is aborted (another task failed)."""


class Task:
    __slots__ = ("id", "func", "callback", "state", "result", "exc", "thread",
                 "sem", "group", "abort")

    def __init__(self, id, func, callback, group):
        self.id = id
        self.func = func
        self.callback = callback
        self.state = "queued"  # queued -> inflight -> done
        self.result = None
        self.exc = None
        self.thread = None
        self.sem = None
        self.group = group
        self.abort = False


class Scheduler:
    """One scheduler per scenario."""

    def __init__(self, mode="ooo", seed=0, p_switch=0.05, max_preempt=20000):
        assert mode in ("ooo", "interleave", "fifo")
        self.mode = mode
        self.seed = seed
        self.rng = random.Random(seed)
        self.p_switch = p_switch
        self.max_preempt = max_preempt
        self.tasks = []
        self.trace = hashlib.sha256()
        self.n_tasks = 0
        self.n_decisions = 0
        self.n_preempt = 0
        self.n_points = 0
        self.n_ooo = 0  # picks that were not the oldest in-flight task
        self.n_parallel_calls = 0
        self.main_sem = threading.Semaphore(0)
        self.local = threading.local()
        self._groups = {}
        self._monitoring = False
        # a third of the interleaving schedules also pre-empt between *lines* of repo code
        # (read-modify-write sequences inside one function), at a quarter of the rate
        self.lines = mode == "interleave" and seed % 3 == 0
        self.n_line_points = 0
        self.current_group = None
        self._idle_pumps = 0

    # ------------------------------------------------------------- registry
    def register(self, func, callback, group, n_jobs):
        t = Task(self.n_tasks, func, callback, group)
        self.n_tasks += 1
        self.tasks.append(t)
        g = self._groups.setdefault(group, {"n_jobs": n_jobs, "tasks": []})
        g["n_jobs"] = n_jobs
        g["tasks"].append(t)
        return t

    def _note(self, *what):
        self.trace.update(repr(what).encode())

    def _inflight(self, group):
        g = self._groups[group]
        live = [t for t in g["tasks"] if t.state == "inflight"]
        # tasks enter flight in FIFO order while a worker is free
        for t in g["tasks"]:
            if len(live) >= g["n_jobs"]:
                break
            if t.state == "queued":
                t.state = "inflight"
                live.append(t)
        return live

    # ------------------------------------------------------------- pump
    def pump_until(self, task):
        """Run tasks (chosen by the schedule stream) until `task` is done."""
        if getattr(self.local, "task", None) is not None:
            raise RuntimeError("nested simulated Parallel inside a task")
        while task.state != "done":
            live = self._inflight(task.group)
            if not live:
                raise HarnessStall("no runnable task but future not done")
            if self.mode == "fifo":
                pick = live[0]
            else:
                pick = live[self.rng.randrange(len(live))]
            self.n_decisions += 1
            if pick is not live[0]:
                self.n_ooo += 1
            self._note("run", pick.id)
            self._step(pick)
            if pick.state == "done" and pick.callback is not None:
                cb, pick.callback = pick.callback, None
                cb(pick)  # drives joblib's pre_dispatch window (main thread)

    def pump_one(self):
        """One scheduling decision for the Parallel call the main thread is waiting in
        (called instead of joblib's polling sleep): the completion callback of a task that
        finishes is invoked here, so results are registered in *completion* order, exactly
        as the threading backend does through its callback thread."""
        if getattr(self.local, "task", None) is not None:
            return
        group = self.current_group
        live = self._inflight(group) if group in self._groups else []
        if not live:
            self._idle_pumps += 1
            if self._idle_pumps > 2000:
                raise HarnessStall("joblib keeps polling but no simulated task is runnable")
            return
        self._idle_pumps = 0
        if self.mode == "fifo":
            pick = live[0]
        else:
            pick = live[self.rng.randrange(len(live))]
        self.n_decisions += 1
        if pick is not live[0]:
            self.n_ooo += 1
        self._note("run", pick.id)
        self._step(pick)
        if pick.state == "done" and pick.callback is not None:
            cb, pick.callback = pick.callback, None
            cb(pick)

    def _step(self, task):
        if self.mode != "interleave":
            try:
                task.result = task.func()
            except BaseException as e:  # noqa
                if isinstance(e, (KeyboardInterrupt, SystemExit)):
                    raise
                task.exc = e
            task.state = "done"
            task.func = None
            return
        if task.thread is None:
            task.sem = threading.Semaphore(0)
            task.thread = threading.Thread(
                target=self._thread_main, args=(task,), daemon=True,
                name="simtask-%d" % task.id)
            task.thread.start()
        task.sem.release()  # hand the baton to the task
        if not self.main_sem.acquire(timeout=STALL_TIMEOUT):
            raise HarnessStall("task %d did not yield within %ss"
                               % (task.id, STALL_TIMEOUT))
        if task.state == "done":
            task.thread.join(timeout=STALL_TIMEOUT)

    def _thread_main(self, task):
        task.sem.acquire()  # wait for the baton
        self.local.task = task
        try:
            if not task.abort:
                task.result = task.func()
        except _Abort:
            pass
        except BaseException as e:  # noqa
            task.exc = e
        finally:
            task.state = "done"
            task.func = None
            self.local.task = None
            self.main_sem.release()  # baton back to the scheduler

    # ------------------------------------------------------------- monitoring
    def preemption_point(self, name, scale=1.0):
        """Called (from the sys.monitoring callback) at entry of a repo function, and in
        line mode before each line of a repo function."""
        task = getattr(self.local, "task", None)
        if task is None:
            return
        self.n_points += 1
        if scale != 1.0:
            self.n_line_points += 1
        if task.abort:
            raise _Abort()
        if self.n_preempt >= self.max_preempt:
            return
        if self.rng.random() < self.p_switch * scale:
            self.n_preempt += 1
            self._note("yield", task.id, name)
            self.main_sem.release()
            task.sem.acquire()
            if task.abort:
                raise _Abort()

    def abort_group(self, group):
        g = self._groups.get(group)
        if not g:
            return
        for t in g["tasks"]:
            if t.state == "done":
                continue
            if t.thread is None:
                t.state = "done"
                t.func = None
                continue
            t.abort = True
            t.sem.release()
            self.main_sem.acquire(timeout=STALL_TIMEOUT)
            t.thread.join(timeout=STALL_TIMEOUT)

    def digest(self):
        return self.trace.hexdigest()[:16]

    def stats(self):
        return {"mode": self.mode, "tasks": self.n_tasks,
                "decisions": self.n_decisions, "preemptions": self.n_preempt,
                "points": self.n_points, "line_points": self.n_line_points,
                "ooo_picks": self.n_ooo,
                "parallel_calls": self.n_parallel_calls,
                "trace": self.digest()}


CURRENT = None  # the scheduler of the running scenario


class SimFuture:
    def __init__(self, task, sched):
        self.task = task
        self.sched = sched

    def get(self, timeout=None):
        self.sched.pump_until(self.task)
        t = self.task
        if t.exc is not None:
            raise t.exc
        return t.result


class SimBackend(ParallelBackendBase):
    # as joblib's own threading backend: results are registered by the completion callback
    # (here invoked by the simulated scheduler on the main thread), which is what makes
    # return_as="generator_unordered" and completion-order effects reproducible
    supports_retrieve_callback = True
    supports_sharedmem = True
    uses_threads = True
    supports_timeout = False
    default_n_jobs = 1

    def __init__(self, nesting_level=None, inner_max_num_threads=None, **kw):
        super().__init__(nesting_level=nesting_level,
                         inner_max_num_threads=inner_max_num_threads)
        self._group = None
        self._n_jobs = 1

    def effective_n_jobs(self, n_jobs):
        if n_jobs is None:
            return 1
        if n_jobs == 0:
            raise ValueError("n_jobs == 0 in Parallel has no meaning")
        if n_jobs < 0:
            return 4  # "all cores" of the simulated machine
        return int(n_jobs)

    def configure(self, n_jobs=1, parallel=None, **kw):
        self.parallel = parallel
        self._n_jobs = self.effective_n_jobs(n_jobs)
        sched = CURRENT
        if sched is None:
            raise RuntimeError("sim backend used outside a scenario")
        sched.n_parallel_calls += 1
        self._group = ("call", sched.n_parallel_calls)
        sched.current_group = self._group
        return self._n_jobs

    def submit(self, func, callback=None):
        sched = CURRENT
        task = sched.register(func, None, self._group, self._n_jobs)
        fut = SimFuture(task, sched)
        if callback is not None:
            task.callback = lambda t: callback(fut)
        return fut

    def retrieve_result_callback(self, out):
        t = out.task
        if t.exc is not None:
            raise t.exc
        return t.result

    def abort_everything(self, ensure_ready=True):
        if CURRENT is not None and self._group is not None:
            CURRENT.abort_group(self._group)

    def terminate(self):
        pass

    def get_nested_backend(self):
        # Parallel calls made from inside a simulated task run sequentially
        return SequentialBackend(nesting_level=1), None


register_parallel_backend("sim", SimBackend)

# ----------------------------------------------------------------- monitoring
_TOOL = 3  # sys.monitoring tool id (0-5 are free for tools; 3 is unassigned)
_REPO_PKG = None
_installed = False


def _on_py_start(code, offset):
    fn = code.co_filename
    if not fn.startswith(_REPO_PKG) or code.co_name == "<module>":
        return sys.monitoring.DISABLE
    s = CURRENT
    if s is not None and s.mode == "interleave":
        if s.lines and code not in _LINED:
            # (takes effect at once, also for the frame that is starting: checked by selftest)
            _LINED.add(code)
            sys.monitoring.set_local_events(_TOOL, code, sys.monitoring.events.LINE)
        s.preemption_point(code.co_name)
    return None


_LINED = set()


def _on_line(code, line):
    s = CURRENT
    if s is None or not s.lines:
        return sys.monitoring.DISABLE  # (until the next scenario's restart_events())
    s.preemption_point(code.co_name, 0.25)
    return None


def install_monitoring(repo_root):
    global _REPO_PKG, _installed
    _REPO_PKG = os.path.join(os.path.abspath(repo_root), "sktime") + os.sep
    if _installed:
        return
    mon = sys.monitoring
    mon.use_tool_id(_TOOL, "simkit")
    mon.register_callback(_TOOL, mon.events.PY_START, _on_py_start)
    mon.register_callback(_TOOL, mon.events.LINE, _on_line)
    _installed = True


def monitoring_on():
    sys.monitoring.set_events(_TOOL, sys.monitoring.events.PY_START)
    sys.monitoring.restart_events()


def monitoring_off():
    sys.monitoring.set_events(_TOOL, 0)


class _JoblibTime:
    """Stands in for the `time` module inside joblib.parallel: its polling sleep becomes one
    step of the simulated scheduler; everything else is the real module."""

    def __init__(self, real):
        self._real = real

    def sleep(self, seconds):
        s = CURRENT
        if s is not None and threading.current_thread() is threading.main_thread():
            s.pump_one()
        else:
            self._real.sleep(seconds)

    def __getattr__(self, name):
        return getattr(self._real, name)


class scenario_schedule:
    """Context manager: route every Parallel(n_jobs>1) in the block through
    the simulator."""

    def __init__(self, sched):
        self.sched = sched

    def __enter__(self):
        global CURRENT
        self._prev = CURRENT
        CURRENT = self.sched
        self._cfg = parallel_config(backend="sim")
        self._cfg.__enter__()
        import joblib.parallel as jp
        self._jp_time = jp.time
        if not isinstance(jp.time, _JoblibTime):
            jp.time = _JoblibTime(jp.time)
        if self.sched.mode == "interleave":
            if not _installed:
                from simkit import boot
                install_monitoring(boot.REPO)
            monitoring_on()
        return self.sched

    def __exit__(self, *exc):
        global CURRENT
        if self.sched.mode == "interleave":
            monitoring_off()
        self._cfg.__exit__(*exc)
        import joblib.parallel as jp
        jp.time = self._jp_time
        CURRENT = self._prev
        return False
