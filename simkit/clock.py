# -*- coding: utf-8 -*-
"""Simulated clock behind the two wall-clock reads in the repo:
`time.time` in forecasting/model_evaluation/_functions.py and
`pd.Timestamp.now` in benchmarking/orchestration.py."""
import contextlib
import random

import pandas as pd


class SimClock:
    def __init__(self, seed=0, jump_every=0, jump_hours=0.0, start=1.6e9):
        self.rng = random.Random(seed)
        self.start = start
        self.now = start
        self.reads = 0
        self.jump_every = jump_every
        self.jump_hours = jump_hours
        self.went_back = 0
        self.went_fwd = 0
        self._mark = 0

    def time(self):
        self.reads += 1
        self.now += self.rng.random() * 0.25  # ordinary passage of time
        if self.jump_every and self.reads % self.jump_every == 0:
            self.now += self.jump_hours * 3600.0
            if self.jump_hours < 0:
                self.went_back += 1
            else:
                self.went_fwd += 1
        return self.now

    def timestamp(self):
        return pd.Timestamp(self.time(), unit="s")

    def elapsed(self):
        return abs(self.now - self.start)

    def mark(self):
        self._mark = self.reads

    def reads_since_mark(self):
        return self.reads - self._mark


class _TimestampProxy:
    """Stands in for the name `pd.Timestamp` inside orchestration.py."""

    def __init__(self, clock):
        self._clock = clock

    def now(self, tz=None):
        return self._clock.timestamp()

    def __call__(self, *a, **k):
        return pd.Timestamp(*a, **k)

    def __getattr__(self, name):
        return getattr(pd.Timestamp, name)


class _PandasProxy:
    def __init__(self, clock):
        self.Timestamp = _TimestampProxy(clock)

    def __getattr__(self, name):
        return getattr(pd, name)


@contextlib.contextmanager
def patched_orchestration_clock(clock):
    """Rebind the dependency name `pd` inside the orchestration module (the
    module attribute, not any repo function) to a proxy whose Timestamp.now
    reads the simulated clock."""
    import sktime.benchmarking.orchestration as orch
    old = orch.pd
    orch.pd = _PandasProxy(clock)
    clock.mark()
    try:
        yield clock
    finally:
        orch.pd = old


class _TimeProxy:
    def __init__(self, clock, real):
        self._clock = clock
        self._real = real

    def time(self):
        return self._clock.time()

    def __getattr__(self, name):
        return getattr(self._real, name)


@contextlib.contextmanager
def patched_evaluate_clock(clock):
    import sktime.forecasting.model_evaluation._functions as fn
    old = fn.time
    fn.time = _TimeProxy(clock, old)
    try:
        yield clock
    finally:
        fn.time = old
