# -*- coding: utf-8 -*-
"""Process bootstrap: hash seed, sys.path, compat layer, version assertion,
pre-import of every importable sktime module (DESIGN.md section 4)."""
import importlib
import os
import pkgutil
import sys
import warnings

VERIF_DIR = os.path.dirname(os.path.dirname(os.path.abspath(__file__)))
REPO = os.path.abspath(os.environ.get("VERIF_REPO", "/repo"))

IMPORTED = []
NOT_IMPORTABLE = {}
_BOOTED = False


def reexec_if_needed():
    """Re-exec the interpreter with a fixed hash seed and no bytecode writing."""
    want = os.environ.get("VERIF_HASHSEED", "0")
    if os.environ.get("PYTHONHASHSEED") != want or \
            os.environ.get("PYTHONDONTWRITEBYTECODE") != "1":
        env = dict(os.environ)
        env["PYTHONHASHSEED"] = want
        env["PYTHONDONTWRITEBYTECODE"] = "1"
        env.setdefault("OMP_NUM_THREADS", "1")
        env.setdefault("OPENBLAS_NUM_THREADS", "1")
        env.setdefault("MKL_NUM_THREADS", "1")
        env["SKTIME_VERIF"] = "1"
        os.execve(sys.executable, [sys.executable] + sys.argv, env)


def boot(preimport=True, quiet=True):
    global _BOOTED
    if _BOOTED:
        return
    if VERIF_DIR not in sys.path:
        sys.path.insert(0, VERIF_DIR)
    # /repo first, so that the 0.6.0 tree (not site-packages 1.1.0) is imported
    while REPO in sys.path:
        sys.path.remove(REPO)
    sys.path.insert(0, REPO)
    # cwd ('' entry) must not shadow: /verif has no sktime dir, fine.
    if quiet:
        warnings.filterwarnings("ignore")
        os.environ.setdefault("PYTHONWARNINGS", "ignore")
    import tempfile
    if not os.environ.get("TMPDIR") and os.access("/dev/shm", os.W_OK):
        tempfile.tempdir = "/dev/shm"  # scratch "disk" of the simulation
    import logging
    logging.disable(logging.CRITICAL)  # orchestration.py logs every skipped unit
    from simkit import compat
    compat.install()
    import sktime
    assert os.path.abspath(os.path.dirname(os.path.dirname(sktime.__file__))) == REPO, (
        "wrong sktime imported: %s (expected under %s)" % (sktime.__file__, REPO))
    assert sktime.__version__ == "0.6.0", sktime.__version__
    if preimport:
        preimport_all()
    compat.post_import()
    if quiet:
        warnings.simplefilter("ignore")  # (statsmodels installs an 'always' filter at import)
    _BOOTED = True


SKIP_PREFIXES = (
    "sktime.contrib", "sktime.setup", "sktime._build_utils",
    "sktime.__check_build", "sktime.utils._testing.estimator_checks",
    "sktime.tests", "sktime.utils.tests",
)


def preimport_all():
    import sktime
    for m in pkgutil.walk_packages(sktime.__path__, "sktime.", onerror=lambda n: None):
        name = m.name
        if any(name.startswith(p) for p in SKIP_PREFIXES):
            continue
        if ".tests" in name or name.endswith(".setup"):
            continue
        try:
            importlib.import_module(name)
            IMPORTED.append(name)
        except BaseException as e:  # noqa
            NOT_IMPORTABLE[name] = "%s: %s" % (type(e).__name__, str(e)[:120])
