# -*- coding: utf-8 -*-
"""Self-tests: `compat` (setup_cmd) and `determinism` (same seed twice, other
hash seed, other worker count -> identical digests)."""
import json
import os
import random
import subprocess
import sys

VERIF_DIR = os.path.dirname(os.path.dirname(os.path.abspath(__file__)))


def compat_selftest():
    from simkit import boot
    boot.boot()
    import sktime
    print("sktime %s from %s; %d modules imported, %d not importable" % (
        sktime.__version__, os.path.dirname(sktime.__file__), len(boot.IMPORTED),
        len(boot.NOT_IMPORTABLE)))
    need = ["sktime.forecasting.naive", "sktime.forecasting.compose",
            "sktime.forecasting.model_selection", "sktime.forecasting.model_evaluation",
            "sktime.benchmarking.orchestration", "sktime.benchmarking.results",
            "sktime.transformations.series.detrend", "sktime.forecasting.theta",
            "sktime.classification.interval_based"]
    missing = [m for m in need if m not in sys.modules]
    if missing:
        print("HARNESS-ERROR required modules not importable: %s" % missing)
        for m in missing:
            print("  ", m, boot.NOT_IMPORTABLE.get(m))
        return 2
    # tiny end-to-end smoke of the seams
    import numpy as np
    import pandas as pd
    from simkit import sched
    from sktime.forecasting.naive import NaiveForecaster
    from sktime.forecasting.compose import EnsembleForecaster
    y = pd.Series(np.arange(20.0), index=pd.RangeIndex(3, 23))
    s = sched.Scheduler("interleave", 1, 0.1)
    with sched.scenario_schedule(s):
        e = EnsembleForecaster([("a", NaiveForecaster()), ("b", NaiveForecaster("drift"))],
                               n_jobs=2).fit(y)
        p = e.predict([1, 2])
    assert list(p.index) == [23, 24], p
    assert s.n_tasks == 2
    print("compat selftest ok")
    return 0


def _digests(prop, indices, verif_seed, tier):
    from simkit import boot, core
    boot.boot()
    eng = core.engine_for(prop)
    out = {}
    for idx in indices:
        seed = core.derive_seed(verif_seed, prop, idx)
        scen = eng.generate(prop, random.Random(seed), tier)
        scen["seed"] = seed
        summ, err = core.execute_scenario(prop, scen)
        out[idx] = (core.short_hash(scen),
                    None if summ is None else summ["digest"],
                    None if summ is None else summ["sched"].get("trace"),
                    None if summ is None else sorted(v["class"] for v in summ["violations"]),
                    err and err.splitlines()[0])
    return out


def determinism_selftest(prop, verif_seed, n=24):
    """Same seeds: (a) twice in this process in different order, (b) in a fresh
    interpreter with another PYTHONHASHSEED."""
    from simkit import core
    props = [prop] if prop else sorted(core.ENGINES)
    rc = 0
    for p in props:
        try:
            core.engine_for(p)
        except Exception as e:  # engine not built yet
            print("skip %s: %s" % (p, e))
            continue
        idx = list(range(n))
        a = _digests(p, idx, verif_seed, "quick")
        b = _digests(p, list(reversed(idx)), verif_seed, "quick")
        out = subprocess.run(
            [sys.executable, "-c",
             "import sys,json; sys.path.insert(0,%r); from simkit import selftest; "
             "print('JSON'+json.dumps(selftest._digests(%r,%r,%d,'quick')))" % (
                 VERIF_DIR, p, idx, verif_seed)],
            capture_output=True, text=True,
            env=dict(os.environ, PYTHONHASHSEED="12345"))
        line = [l for l in out.stdout.splitlines() if l.startswith("JSON")]
        if not line:
            print("HARNESS-ERROR determinism child failed: %s" % out.stderr[-500:])
            return 2
        c = {int(k): tuple(v) for k, v in json.loads(line[0][4:]).items()}
        bad = [i for i in idx if not (a[i] == b[i] == tuple(c[i]))]
        print("%s determinism: %d seeds x (2 orders + other PYTHONHASHSEED): %s" % (
            p, n, "OK" if not bad else "DIVERGED at %s" % bad))
        if bad:
            for i in bad[:3]:
                print("   ", i, a[i], b[i], c[i])
            rc = 2
    return rc


def main(which, prop, verif_seed):
    if which == "compat":
        return compat_selftest()
    if which == "determinism":
        return determinism_selftest(prop, verif_seed)
    print("unknown selftest %r" % which)
    return 2
