# -*- coding: utf-8 -*-
"""Runner: seeds -> scenarios -> executions -> oracle verdicts -> minimised
replay files, evidence, exit codes (DESIGN.md section 4)."""
import argparse
import faulthandler
import hashlib
import importlib
import json
import os
import random
import shutil
import subprocess
import sys
import tempfile
import time
import traceback
from concurrent.futures import ProcessPoolExecutor, as_completed
import multiprocessing

VERIF_DIR = os.path.dirname(os.path.dirname(os.path.abspath(__file__)))

ENGINES = {
    "C19": "engines.orchestrator",
    "C10": "engines.forecaster_sm",
    "C03": "engines.forecaster_sm",
    "C09": "engines.composites",
    "C07": "engines.evaluate_tune",
    "C08": "engines.evaluate_tune",
    "C12": "engines.purity",
    "C04": "engines.lifecycle",
    "C13": "engines.transformer_sm",
    "C20": "engines.malformed",
}


# ----------------------------------------------------------------- seeds
def derive_seed(verif_seed, prop, index):
    m = hashlib.sha256(("%d/%s/%d" % (verif_seed, prop, index)).encode())
    return int.from_bytes(m.digest()[:8], "big")


def canon(obj):
    return json.dumps(obj, sort_keys=True, separators=(",", ":"), default=str)


def short_hash(obj):
    return hashlib.sha256(canon(obj).encode()).hexdigest()[:16]


# ----------------------------------------------------------------- results
class Violation:
    def __init__(self, cls, detail, sig=None):
        self.cls = cls            # stable oracle id, e.g. "C19.registry_incomplete"
        self.detail = detail      # human-readable
        self.sig = sig or {}      # call site / estimator / input signature

    def to_json(self):
        return {"class": self.cls, "detail": self.detail, "sig": self.sig}

    def key(self):
        return (self.cls, canon(self.sig))


class RunResult:
    def __init__(self):
        self.violations = []
        self.faults = {}       # fault kind -> times it actually took effect
        self.probes = {}       # rare-branch counters
        self.states = set()    # hashes of reference-model states
        self.real = set()      # repo classes exercised
        self.stub = set()
        self.sched = {}        # schedule stats
        self.sim_time = 0.0
        self.nontrivial = False
        self.ops = 0
        self.digest = ""
        self.variant = None    # engine-defined identity of the case (default: scenario hash)

    def fault(self, kind, n=1):
        self.faults[kind] = self.faults.get(kind, 0) + n

    def probe(self, name, n=1):
        self.probes[name] = self.probes.get(name, 0) + n

    def violate(self, cls, detail, **sig):
        self.violations.append(Violation(cls, detail, sig))

    def summary(self):
        return {
            "violations": [v.to_json() for v in self.violations],
            "faults": self.faults, "probes": self.probes,
            "states": sorted(self.states), "real": sorted(self.real),
            "stub": sorted(self.stub), "sched": self.sched,
            "sim_time": self.sim_time, "nontrivial": self.nontrivial,
            "ops": self.ops, "digest": self.digest, "variant": self.variant,
        }


# ----------------------------------------------------------------- known findings
def load_known():
    path = os.path.join(VERIF_DIR, "known_findings.json")
    if not os.path.exists(path):
        return []
    with open(path) as f:
        return json.load(f)["findings"]


def match_known(known, prop, v):
    for k in known:
        if k.get("status") != "known" or k["property"] != prop:
            continue
        if k["class"] != v["class"]:
            continue
        m = k.get("match", {})
        if all(v["sig"].get(a) == b for a, b in m.items()):
            return k
    return None


def replay_known(prop, known):
    """Directed scenarios kept with each known finding: the KNOWN-FINDING line does
    not depend on the sample happening to hit it."""
    out = {}
    for k in known:
        if k.get("status") != "known" or k["property"] != prop or not k.get("replay"):
            continue
        path = os.path.join(VERIF_DIR, k["replay"])
        try:
            with open(path) as f:
                rep = json.load(f)
            summ, err = execute_scenario(prop, rep["scenario"])
            ok = bool(summ) and any(match_known([k], prop, v) for v in summ["violations"])
            out[k["id"]] = (k, ok, err.splitlines()[0] if err else "no matching violation")
        except Exception as e:  # noqa
            out[k["id"]] = (k, False, "%s: %s" % (type(e).__name__, e))
    return out


def save_known_replay(prop, kid, verif_seed=0, max_idx=4000):
    """Search seeds for a run hitting known finding `kid`, minimise, store the replay."""
    from simkit import boot
    boot.boot()
    known = [k for k in load_known() if k["id"] == kid]
    eng = engine_for(prop)
    for idx in range(max_idx):
        seed = derive_seed(verif_seed, prop, idx)
        scen = eng.generate(prop, random.Random(seed), "quick")
        scen["seed"] = seed
        summ, err = execute_scenario(prop, scen)
        if not summ:
            continue
        hit = [v for v in summ["violations"] if match_known(known, prop, v)]
        if hit:
            small, steps = shrink(prop, scen, hit[0]["class"], None, budget_s=60)
            summ2, _ = execute_scenario(prop, small)
            hit2 = [v for v in (summ2 or {}).get("violations", []) if match_known(known, prop, v)]
            if not hit2:
                small, hit2 = scen, hit
            d = os.path.join(VERIF_DIR, "replays", "known")
            os.makedirs(d, exist_ok=True)
            path = os.path.join(d, "%s.json" % kid)
            with open(path, "w") as f:
                json.dump({"property": prop, "class": hit2[0]["class"], "sig": hit2[0]["sig"],
                           "detail": hit2[0]["detail"], "seed": seed, "scenario": small},
                          f, indent=1, sort_keys=True, default=str)
            print("saved %s (idx %d, %d shrink steps): %s" % (path, idx, steps, hit2[0]["detail"]))
            return 0
    print("no run hit %s" % kid)
    return 2


# ----------------------------------------------------------------- engine access
def engine_for(prop):
    return importlib.import_module(ENGINES[prop])


def execute_scenario(prop, scenario):
    """Execute one explicit scenario; never raises (harness errors are data)."""
    eng = engine_for(prop)
    try:
        res = eng.execute(prop, scenario)
        return res.summary(), None
    except BaseException as e:  # noqa
        if isinstance(e, (KeyboardInterrupt, SystemExit)):
            raise
        return None, "%s: %s\n%s" % (type(e).__name__, e, traceback.format_exc(limit=12))


def _worker(args):
    prop, tier, verif_seed, indices, deadline = args
    faulthandler.enable()
    from simkit import boot
    boot.boot()
    eng = engine_for(prop)
    out = []
    for idx in indices:
        if time.time() > deadline:
            break
        seed = derive_seed(verif_seed, prop, idx)
        rng = random.Random(seed)
        t0 = time.time()
        try:
            scen = eng.generate(prop, rng, tier)
            scen["seed"] = seed
        except BaseException as e:  # noqa
            out.append({"idx": idx, "seed": seed, "harness": "generate: %s\n%s" % (
                e, traceback.format_exc(limit=8))})
            continue
        faulthandler.dump_traceback_later(240, exit=False)
        summ, err = execute_scenario(prop, scen)
        faulthandler.cancel_dump_traceback_later()
        rec = {"idx": idx, "seed": seed, "wall": time.time() - t0,
               "hash": short_hash({k: v for k, v in scen.items() if k != "seed"})}
        if err is not None:
            rec["harness"] = err
            rec["scenario"] = scen
        else:
            rec["summary"] = summ
            if summ["violations"] or idx < 4:
                rec["scenario"] = scen
        out.append(rec)
    return out


# ----------------------------------------------------------------- shrinking
def _same_class(prop, scen, cls, sigkey):
    summ, err = execute_scenario(prop, scen)
    if err is not None or summ is None:
        return False
    for v in summ["violations"]:
        if v["class"] == cls:
            return True
    return False


def shrink(prop, scen, cls, sigkey, budget_s=60.0):
    """Greedy minimisation while the same violation class persists:
    engine-provided candidate reductions (ddmin over ops/faults, argument
    shrinking, schedule simplification)."""
    eng = engine_for(prop)
    t_end = time.time() + budget_s
    cur = scen
    steps = 0
    improved = True
    while improved and time.time() < t_end:
        improved = False
        for cand in eng.shrink_candidates(prop, cur):
            if time.time() > t_end:
                break
            if canon(cand) == canon(cur):
                continue
            if _same_class(prop, cand, cls, sigkey):
                cur = cand
                improved = True
                steps += 1
                break
    return cur, steps


def ddmin_list(items):
    """Yield sub-lists of `items` (chunks removed, then single elements)."""
    n = len(items)
    if n == 0:
        return
    chunk = n // 2
    while chunk >= 1:
        for start in range(0, n, chunk):
            cand = items[:start] + items[start + chunk:]
            if len(cand) < n:
                yield cand
        chunk //= 2


# ----------------------------------------------------------------- replay
def scratch_dir():
    """Where a run against a scratch copy of the repo (VERIF_REPO) leaves its files: one
    directory per scratch copy, so that concurrent sensitivity runs do not collide."""
    from simkit import boot
    tag = hashlib.sha256(boot.REPO.encode()).hexdigest()[:10]
    return os.path.join(os.environ.get("VERIF_SCRATCH_EVIDENCE", "/dev/shm"), "verif_scratch_" + tag)


def write_replay(prop, scen, v, seed, digest):
    from simkit import boot
    d = os.path.join(VERIF_DIR, "replays") if boot.REPO == "/repo" else \
        os.path.join(scratch_dir(), "replays")
    os.makedirs(d, exist_ok=True)
    name = "%s-%s-%d.json" % (prop, v["class"].split(".", 1)[-1], seed)
    path = os.path.join(d, name)
    with open(path, "w") as f:
        json.dump({"property": prop, "class": v["class"], "sig": v["sig"],
                   "detail": v["detail"], "seed": seed, "digest": digest,
                   "scenario": scen}, f, indent=1, sort_keys=True, default=str)
    return path


def run_replay(prop, path):
    """Execute a replay file; report whether the same class reproduces."""
    from simkit import boot
    boot.boot()
    with open(path) as f:
        rep = json.load(f)
    summ, err = execute_scenario(prop, rep["scenario"])
    if err is not None:
        print("HARNESS-ERROR replay %s: %s" % (path, err))
        return 2
    known = load_known()
    classes = [v["class"] for v in summ["violations"]]
    print("replay %s: digest=%s expected_digest=%s classes=%s" % (
        path, summ["digest"], rep.get("digest"), sorted(set(classes))))
    hit = [v for v in summ["violations"] if v["class"] == rep["class"]]
    if hit:
        for v in hit[:3]:
            print("  %s: %s" % (v["class"], v["detail"]))
        if all(match_known(known, prop, v) for v in hit):
            for v in hit[:1]:
                print("KNOWN-FINDING: property=%s %s" % (prop, v["detail"]))
            return 0
        print("VIOLATION property=%s replay=%s" % (prop, path))
        return 1
    print("replay did not reproduce class %s" % rep["class"])
    return 0


# ----------------------------------------------------------------- main check
TIERS = {
    # prop: (quick runs, quick wall budget s, thorough runs, thorough budget s)
    "default": (400, 150, 6000, 900),
}


def run_check(prop, tier, verif_seed, n_runs=None, budget=None, workers=None,
              quiet=False, survey=False):
    from simkit import boot
    boot.boot()
    eng = engine_for(prop)
    cfg = getattr(eng, "TIERS", {}).get(prop) or TIERS["default"]
    if n_runs is None:
        n_runs = cfg[0] if tier == "quick" else cfg[2]
    if budget is None:
        budget = cfg[1] if tier == "quick" else cfg[3]
    budget = float(os.environ.get("VERIF_BUDGET_S", budget))
    n_runs = int(os.environ.get("VERIF_RUNS", n_runs))
    workers = workers or int(os.environ.get("VERIF_WORKERS", min(16, os.cpu_count() or 4)))
    t0 = time.time()
    deadline = t0 + budget
    # interleaved chunks so that every worker sees early and late indices
    chunks = [list(range(w, n_runs, workers * 4)) for w in range(workers * 4)]
    chunks = [c for c in chunks if c]
    records = []
    harness = []
    ctx = multiprocessing.get_context("fork")
    with ProcessPoolExecutor(max_workers=workers, mp_context=ctx) as ex:
        futs = [ex.submit(_worker, (prop, tier, verif_seed, c, deadline))
                for c in chunks]
        for fu in as_completed(futs):
            try:
                records.extend(fu.result(timeout=budget + 300))
            except BaseException as e:  # noqa
                harness.append("worker died: %r" % (e,))
    records.sort(key=lambda r: r["idx"])
    wall_search = time.time() - t0

    if survey:
        hist = {}
        for r in records:
            if "harness" in r:
                k = ("HARNESS", r["harness"].splitlines()[0][:150])
                hist.setdefault(k, [0, r["idx"], r["harness"][-1500:]])[0] += 1
            for v in (r.get("summary") or {}).get("violations", []):
                k = (v["class"], canon(v["sig"]))
                hist.setdefault(k, [0, r["idx"], v["detail"]])[0] += 1
        print("survey %s: %d runs in %.1fs" % (prop, len(records), wall_search))
        for k, (n, idx, det) in sorted(hist.items(), key=lambda kv: -kv[1][0]):
            print("%5d  %s %s\n        idx=%d %s" % (n, k[0], k[1], idx, det[:700]))
        return 0
    known = load_known()
    known_replayed = replay_known(prop, known)
    agg = aggregate(prop, tier, verif_seed, records)
    for r in records:
        if "harness" in r:
            harness.append("run idx=%d seed=%d: %s" % (r["idx"], r["seed"], r["harness"]))

    # ---- violations: classify, minimise, replay-verify
    by_key = {}
    for r in records:
        for v in (r.get("summary") or {}).get("violations", []):
            k = (v["class"], canon(v["sig"]))
            by_key.setdefault(k, []).append((r, v))
    unknown = []
    known_seen = {}
    for k, lst in by_key.items():
        r, v = lst[0]
        kf = match_known(known, prop, v)
        if kf is not None:
            known_seen.setdefault(kf["id"], (kf, v, len(lst)))
        else:
            unknown.append((k, lst))
    exit_code = 0
    out_lines = []
    for kid, (kf, ok, note) in sorted(known_replayed.items()):
        n = known_seen.get(kid, (None, None, 0))[2]
        if ok:
            out_lines.append("KNOWN-FINDING: property=%s %s [%s; directed replay reproduces; "
                             "also seen in %d sampled runs]" % (prop, kf["what"], kid, n))
        else:
            out_lines.append("note: known finding %s did not reproduce on its directed replay (%s); "
                             "if it was repaired, mark it fixed in known_findings.json" % (kid, note))
    for kid, (kf, v, n) in sorted(known_seen.items()):
        if kid not in known_replayed:
            out_lines.append("KNOWN-FINDING: property=%s %s [%s; seen in %d runs]" % (
                prop, kf["what"], kid, n))
    # report at most a handful of distinct unknown classes (by class id)
    reported_classes = {}
    for k, lst in sorted(unknown, key=lambda kl: (kl[0][0], -len(kl[1]))):
        cls = k[0]
        if reported_classes.get(cls, 0) >= 2 or len(reported_classes) >= 6 \
                and cls not in reported_classes:
            continue
        reported_classes[cls] = reported_classes.get(cls, 0) + 1
        # smallest failing scenario first (by JSON length)
        lst = sorted(lst, key=lambda rv: len(canon(rv[0].get("scenario", {}))))
        # (a violation that does not replay in a fresh interpreter depended on what ran before it
        # in its worker process - state leaked through the code under test; the next smallest
        # scenarios of the same class are tried before this is called a harness error)
        pending_harness = []
        for r, v in lst[:5]:
            scen = r["scenario"]
            small, steps = shrink(prop, scen, v["class"], k[1],
                                  budget_s=float(os.environ.get("VERIF_SHRINK_S", 30 if tier == "quick" else 120)))
            summ, err = execute_scenario(prop, small)
            v2 = v
            digest = ""
            if summ:
                digest = summ["digest"]
                for cand in summ["violations"]:
                    if cand["class"] == v["class"]:
                        v2 = cand
                        break
            path = write_replay(prop, small, v2, r["seed"], digest)
            # replay in a fresh interpreter: must reproduce
            rc = subprocess.run(
                [sys.executable, os.path.join(VERIF_DIR, "check"), prop, "--replay", path],
                capture_output=True, text=True, timeout=600,
                env=dict(os.environ, VERIF_NO_REEXEC=""))
            reproduced = rc.returncode == 1 and "VIOLATION property=%s" % prop in rc.stdout
            out_lines.append("violation class=%s runs=%d seed=%d shrink_steps=%d "
                             "replay_reproduced=%s\n   %s" % (
                                 v2["class"], len(lst), r["seed"], steps, reproduced,
                                 v2["detail"]))
            if reproduced:
                out_lines.append("VIOLATION property=%s replay=%s" % (prop, path))
                exit_code = 1
                pending_harness = []
                break
            else:
                pending_harness.append("violation %s (seed %d) did not reproduce on replay: "
                               "rc=%s out=%s err=%s" % (v2["class"], r["seed"], rc.returncode,
                                                       rc.stdout[-400:], rc.stderr[-400:]))
        harness.extend(pending_harness[:1])
    agg["coverage"]["known_findings_seen"] = sorted(known_seen)
    agg["violations"] = sum(len(l) for _, l in unknown)
    agg["coverage"]["violation_classes"] = sorted({k[0] for k, _ in unknown})
    agg["coverage"]["harness_errors"] = len(harness)
    agg["wall_s"] = round(time.time() - t0, 2)
    ev = agg["coverage"]
    ev["runs_per_hour"] = int(len(records) / max(wall_search, 1e-6) * 3600)
    write_evidence(prop, agg)
    if not quiet:
        print("%s tier=%s VERIF_SEED=%d runs=%d nontrivial_distinct=%d wall=%.1fs "
              "runs/h=%d faults=%s" % (
                  prop, tier, verif_seed, len(records), ev["distinct_nontrivial"],
                  agg["wall_s"], ev["runs_per_hour"], ev["fault_kinds_fired"]))
        zero = [p for p, n in ev.get("probes", {}).items() if n == 0]
        if zero:
            print("WARNING probes stuck at 0: %s" % zero)
        for l in out_lines:
            print(l)
    if harness:
        for h in harness[:5]:
            print("HARNESS-ERROR %s" % h)
        if exit_code == 0:
            exit_code = 2
    if len(records) < max(2, min(n_runs, 20)):
        print("HARNESS-ERROR too few runs completed: %d" % len(records))
        exit_code = exit_code or 2
    return exit_code


def aggregate(prop, tier, verif_seed, records):
    eng = engine_for(prop)
    faults, probes, sched = {}, {}, {}
    states, real, stub, hashes_nt, traces = set(), set(), set(), set(), set()
    sim_time = 0.0
    ops = 0
    samples = []
    for p in getattr(eng, "PROBES", {}).get(prop, []):
        probes[p] = 0
    for k in getattr(eng, "FAULT_KINDS", {}).get(prop, []):
        faults[k] = 0
    n_ok = 0
    for r in records:
        s = r.get("summary")
        if not s:
            continue
        n_ok += 1
        for k, n in s["faults"].items():
            faults[k] = faults.get(k, 0) + n
        for k, n in s["probes"].items():
            probes[k] = probes.get(k, 0) + n
        for k, n in s["sched"].items():
            if isinstance(n, (int, float)):
                sched[k] = sched.get(k, 0) + n
        if s["sched"].get("trace"):
            traces.add(s["sched"]["trace"])
        states.update(s["states"])
        real.update(s["real"])
        stub.update(s["stub"])
        sim_time += s["sim_time"]
        ops += s["ops"]
        if s["nontrivial"]:
            hashes_nt.add((s.get("variant") or r["hash"]) + ":" + s["sched"].get("trace", ""))
        if "scenario" in r and len(samples) < 4:
            samples.append(_trim(r["scenario"]))
    from simkit import boot, compat
    level = getattr(eng, "LEVEL", {}).get(prop, "exploration")
    cov = {
        "evaluations": n_ok,
        "distinct_nontrivial": len(hashes_nt),
        "rule": getattr(eng, "RULE", {}).get(prop, ""),
        "samples": samples,
        "seeds": {"VERIF_SEED": verif_seed,
                  "first_run_seed": records[0]["seed"] if records else None,
                  "last_run_seed": records[-1]["seed"] if records else None},
        "operations_executed": ops,
        "sim_time_covered_s": round(sim_time, 3),
        "fault_kinds_fired": faults,
        "schedule": dict(sched, distinct_traces=len(traces)),
        "distinct_model_states": len(states),
        "probes": probes,
        "components": {
            "real": sorted(real),
            "stub": sorted(stub | {"compat:" + k for k in compat.HITS}),
            "not_covered": sorted(boot.NOT_IMPORTABLE),
        },
    }
    # pointer to the last recorded sensitivity run (read from files, NOT measured by this run)
    try:
        with open(os.path.join(VERIF_DIR, "seeded", "results.json")) as f:
            sr = json.load(f)
        mine = {k: v for k, v in sr.items() if v.get("property") == prop}
        cov["sensitivity_record"] = {
            "note": "read from seeded/results.json (last tools_seeded.py run), not measured by this run",
            "independent_seeded_changes": len(mine),
            "caught_by_this_check": sum(1 for v in mine.values() if v.get("caught")),
            "not_caught": sorted(k for k, v in mine.items() if not v.get("caught"))}
    except Exception:
        pass
    return {"property_id": prop, "tier": tier, "seed": verif_seed, "level": level,
            "coverage": cov,
            "assumptions": getattr(eng, "ASSUMPTIONS", {}).get(prop, []) + [
                "compat layer (simkit/compat.py) faithfully emulates the 2021 "
                "dependency APIs that sktime 0.6.0 needs",
                "sampling, not proof: a clean batch is evidence"],
            "wall_s": 0.0, "violations": 0}


def _trim(scen, limit=6000):
    s = canon(scen)
    if len(s) <= limit:
        return scen
    return {"truncated_json": s[:limit] + "..."}


def write_evidence(prop, agg):
    from simkit import boot
    if boot.REPO != "/repo":
        # a run against a scratch copy (sensitivity experiments) says nothing about /repo:
        # its evidence goes next to the scratch results, never into evidence/
        d = os.path.join(scratch_dir(), "evidence")
    else:
        d = os.path.join(VERIF_DIR, "evidence")
    os.makedirs(d, exist_ok=True)
    path = os.path.join(d, "%s.json" % prop)
    tmp = path + ".tmp"
    with open(tmp, "w") as f:
        json.dump(agg, f, indent=1, sort_keys=True, default=str)
    os.replace(tmp, path)


def main(argv=None):
    ap = argparse.ArgumentParser()
    ap.add_argument("prop", nargs="?")
    ap.add_argument("--tier", default=os.environ.get("VERIF_TIER", "quick"))
    ap.add_argument("--replay")
    ap.add_argument("--runs", type=int)
    ap.add_argument("--budget", type=float)
    ap.add_argument("--workers", type=int)
    ap.add_argument("--selftest")
    ap.add_argument("--one", type=int, help="run a single index verbosely")
    ap.add_argument("--survey", action="store_true", help="histogram of violation classes")
    ap.add_argument("--save-known", help="find, minimise and store a replay for a known finding id")
    a = ap.parse_args(argv)
    verif_seed = int(os.environ.get("VERIF_SEED", "0"))
    if a.selftest:
        from simkit import selftest
        return selftest.main(a.selftest, a.prop, verif_seed)
    if a.prop not in ENGINES:
        print("unknown or not-applicable property: %r" % a.prop)
        return 2
    if a.replay:
        return run_replay(a.prop, a.replay)
    if a.save_known:
        return save_known_replay(a.prop, a.save_known, verif_seed)
    if a.one is not None:
        from simkit import boot
        boot.boot()
        eng = engine_for(a.prop)
        seed = derive_seed(verif_seed, a.prop, a.one)
        scen = eng.generate(a.prop, random.Random(seed), a.tier)
        scen["seed"] = seed
        print(json.dumps(scen, indent=1, default=str)[:6000])
        summ, err = execute_scenario(a.prop, scen)
        print(err or json.dumps(summ, indent=1, default=str)[:6000])
        return 0
    tier = a.tier if a.tier in ("quick", "thorough") else "quick"
    return run_check(a.prop, tier, verif_seed, a.runs, a.budget, a.workers,
                     survey=a.survey)
