# -*- coding: utf-8 -*-
"""Old-dependency emulation for sktime 0.6.0 (DESIGN.md section 2).

Loaded *before* any ``sktime`` import.  It only adds names to dependency
namespaces (pandas, numpy, sklearn, scipy, a fake ``numba``) or, in two
documented places, rebinds a dependency name imported by a repo module.
It never replaces, wraps or edits a function or class defined in /repo.
"""
import sys
import types
import warnings

import numpy as np
import pandas as pd

_INSTALLED = False
HITS = {}  # which emulations were actually used (evidence: components.stub)


def _hit(name):
    HITS[name] = HITS.get(name, 0) + 1


# --------------------------------------------------------------------------- numpy
def _numpy():
    with warnings.catch_warnings():
        warnings.simplefilter("ignore")
        for name, typ in (("int", int), ("float", float), ("bool", bool),
                          ("object", object), ("str", str), ("complex", complex),
                          ("NINF", -np.inf), ("PINF", np.inf), ("Inf", np.inf),
                          ("Infinity", np.inf), ("NaN", np.nan), ("float_", np.float64)):
            if name not in np.__dict__:
                setattr(np, name, typ)


# --------------------------------------------------------------------------- pandas
class _Int64IndexMeta(type):
    """pd.Int64Index of pandas 1.x without subclassing pd.Index.

    isinstance(x, Int64Index)  <=> plain pd.Index with int64 dtype
    type(x) == Int64Index / type(x) in (Int64Index, ...) <=> type(x) is pd.Index
    Int64Index(data, dtype=...) builds an int64 pd.Index following the
    pandas 1.2 NumericIndex.__new__ algorithm.
    """

    def __instancecheck__(cls, x):
        return type(x) is pd.Index and x.dtype == np.int64

    def __subclasscheck__(cls, sub):
        return sub is cls

    def __eq__(cls, other):
        return other is cls or other is pd.Index

    def __ne__(cls, other):
        return not cls.__eq__(other)

    def __hash__(cls):
        return hash(pd.Index)

    def __call__(cls, data=None, dtype=None, copy=False, name=None):
        _hit("pd.Int64Index()")
        if dtype is not None:
            dt = np.dtype(dtype)
            if dt.kind != "i":
                raise ValueError(
                    "Incorrect `dtype` passed: expected signed integer, received "
                    f"{dtype}")
        if name is None and hasattr(data, "name"):
            name = data.name
        if not isinstance(data, (np.ndarray, pd.Index)):
            if data is None or np.isscalar(data):
                raise TypeError(
                    "Int64Index(...) must be called with a collection of some "
                    f"kind, {data!r} was passed")
            if not isinstance(data, (pd.Series, list, tuple)):
                data = list(data)
            # pandas 1.2: np.asarray(list, dtype=dtype) (a list of fractional
            # floats is silently truncated when dtype=int is given)
            if dtype is not None and any(
                    isinstance(v, (str, bytes)) for v in data):
                raise ValueError(
                    f"invalid literal for int() with base 10: {data!r}")
            data = np.asarray(data, dtype=dtype)
        if isinstance(data, pd.Index):
            arr = data.to_numpy()
        else:
            arr = data
        if arr.dtype.kind in "US":
            raise TypeError(
                "String dtype not supported, you may need to explicitly cast "
                "to a numeric type")
        if arr.dtype != np.int64:
            if arr.dtype.kind not in "iufb":
                # object / datetime etc: numpy conversion decides
                try:
                    sub = np.array(arr, dtype=np.int64)
                except (TypeError, ValueError) as e:
                    raise TypeError(str(e))
            else:
                with warnings.catch_warnings():
                    warnings.simplefilter("ignore")
                    sub = np.array(arr, dtype=np.int64)
            # _assert_safe_casting
            if arr.dtype.kind in "fO":
                try:
                    same = bool(np.all(arr == sub))
                except Exception:
                    same = False
                if not same:
                    raise TypeError(
                        "Unsafe NumPy casting, you must explicitly cast")
        else:
            sub = np.array(arr, dtype=np.int64) if copy else arr
        if sub.ndim > 1:
            raise ValueError("Index data must be 1-dimensional")
        return pd.Index(sub, dtype="int64", name=name)


class Int64Index(metaclass=_Int64IndexMeta):
    pass


Int64Index.__name__ = "Int64Index"
Int64Index.__qualname__ = "Int64Index"


def _series_append(self, to_append, ignore_index=False, verify_integrity=False):
    _hit("Series.append")
    if isinstance(to_append, (list, tuple)):
        to_concat = [self]
        to_concat.extend(to_append)
    else:
        to_concat = [self, to_append]
    if any(isinstance(x, pd.DataFrame) for x in to_concat[1:]):
        raise TypeError("to_append should be a Series or list/tuple of Series, "
                        "got DataFrame")
    with warnings.catch_warnings():
        warnings.simplefilter("ignore", FutureWarning)
        return pd.concat(to_concat, ignore_index=ignore_index,
                         verify_integrity=verify_integrity)


def _frame_append(self, other, ignore_index=False, verify_integrity=False,
                  sort=False):
    """Port of pandas 1.2 DataFrame.append."""
    _hit("DataFrame.append")
    if isinstance(other, (pd.Series, dict)):
        if isinstance(other, dict):
            if not ignore_index:
                raise TypeError("Can only append a dict if ignore_index=True")
            other = pd.Series(other)
        if other.name is None and not ignore_index:
            raise TypeError("Can only append a Series if ignore_index=True "
                            "or if the Series has a name")
        index = pd.Index([other.name], name=self.index.name)
        idx_diff = other.index.difference(self.columns)
        combined_columns = self.columns.astype(object).append(idx_diff) \
            if len(idx_diff) else self.columns
        other = (
            other.reindex(combined_columns, copy=False)
            .to_frame()
            .T.infer_objects()
            .rename_axis(index.names, copy=False)
        )
        other.index = index
        if not self.columns.equals(combined_columns):
            self = self.reindex(columns=combined_columns)
    elif isinstance(other, list):
        if not other:
            pass
        elif not isinstance(other[0], pd.DataFrame):
            other = pd.DataFrame(other)
            if (self.columns.get_indexer(other.columns) >= 0).all():
                other = other.reindex(columns=self.columns)
    if isinstance(other, (list, tuple)):
        to_concat = [self, *other]
    else:
        to_concat = [self, other]
    with warnings.catch_warnings():
        warnings.simplefilter("ignore", FutureWarning)
        return pd.concat(to_concat, ignore_index=ignore_index,
                         verify_integrity=verify_integrity, sort=sort)


def _pandas():
    if not hasattr(pd, "Int64Index"):
        pd.Int64Index = Int64Index
    if not hasattr(pd.Series, "append"):
        pd.Series.append = _series_append
    if not hasattr(pd.DataFrame, "append"):
        pd.DataFrame.append = _frame_append
    if not hasattr(pd.Index, "is_monotonic"):
        pd.Index.is_monotonic = property(lambda self: self.is_monotonic_increasing)
    if not hasattr(pd.Series, "is_monotonic"):
        pd.Series.is_monotonic = property(lambda self: self.is_monotonic_increasing)
    if not hasattr(pd.Series, "iteritems"):
        pd.Series.iteritems = pd.Series.items
    if not hasattr(pd.DataFrame, "iteritems"):
        pd.DataFrame.iteritems = pd.DataFrame.items

    # read_csv(squeeze=True)
    _orig_read_csv = pd.read_csv
    if not getattr(_orig_read_csv, "_simkit", False):
        def read_csv(*args, squeeze=False, **kwargs):
            out = _orig_read_csv(*args, **kwargs)
            if squeeze and isinstance(out, pd.DataFrame) and out.shape[1] == 1:
                _hit("read_csv(squeeze)")
                out = out.iloc[:, 0]
            return out
        read_csv._simkit = True
        read_csv.__doc__ = _orig_read_csv.__doc__
        pd.read_csv = read_csv

    # sequence-protocol objects (len + getitem, no __iter__) as Index data:
    # pandas 1.x materialised them through com.asarray_tuplesafe -> list(values)
    _orig_new = pd.Index.__new__
    if not getattr(_orig_new, "_simkit", False):
        from pandas.api.types import is_list_like, is_scalar

        def __new__(cls, data=None, *args, **kwargs):
            if (cls is pd.Index and data is not None and not is_scalar(data)
                    and not is_list_like(data)
                    and hasattr(data, "__len__") and hasattr(data, "__getitem__")
                    and not hasattr(data, "__array__")):
                _hit("Index(sequence-protocol object)")
                data = [data[i] for i in range(len(data))]
                # pandas 1.x went through an object array and then inferred
                return _orig_new(cls, data, *args, **kwargs)
            return _orig_new(cls, data, *args, **kwargs)
        __new__._simkit = True
        pd.Index.__new__ = __new__


# --------------------------------------------------------------------------- sklearn
def _sklearn():
    import sklearn.base
    import sklearn.utils.metaestimators as me

    if not hasattr(sklearn.base, "_pprint"):
        def _pprint(params, offset=0, printer=repr):
            """Port of sklearn 0.22 ``sklearn.base._pprint``."""
            options = np.get_printoptions()
            np.set_printoptions(precision=5, threshold=64, edgeitems=2)
            params_list = list()
            this_line_length = offset
            line_sep = ",\n" + (1 + offset // 2) * " "
            for i, (k, v) in enumerate(sorted(params.items())):
                if type(v) is float:
                    this_repr = "%s=%s" % (k, str(v))
                else:
                    this_repr = "%s=%s" % (k, printer(v))
                if len(this_repr) > 500:
                    this_repr = this_repr[:300] + "..." + this_repr[-100:]
                if i > 0:
                    if this_line_length + len(this_repr) >= 75 or "\n" in this_repr:
                        params_list.append(line_sep)
                        this_line_length = len(line_sep)
                    else:
                        params_list.append(", ")
                        this_line_length += 2
                params_list.append(this_repr)
                this_line_length += len(this_repr)
            np.set_printoptions(**options)
            lines = "".join(params_list)
            lines = "\n".join(line.rstrip(" ") for line in lines.split("\n"))
            return lines
        sklearn.base._pprint = _pprint

    if not hasattr(me, "if_delegate_has_method"):
        from functools import update_wrapper
        from operator import attrgetter

        class _IffHasAttrDescriptor:
            """Port of sklearn 0.24 _IffHasAttrDescriptor."""

            def __init__(self, fn, delegate_names, attribute_name):
                self.fn = fn
                self.delegate_names = delegate_names
                self.attribute_name = attribute_name
                update_wrapper(self, fn)

            def __get__(self, obj, type=None):
                if obj is not None:
                    for delegate_name in self.delegate_names:
                        try:
                            delegate = attrgetter(delegate_name)(obj)
                        except AttributeError:
                            continue
                        else:
                            getattr(delegate, self.attribute_name)
                            break
                    else:
                        attrgetter(self.delegate_names[-1])(obj)

                def out(*args, **kwargs):
                    return self.fn(obj, *args, **kwargs)
                update_wrapper(out, self.fn)
                return out

        def if_delegate_has_method(delegate):
            if isinstance(delegate, list):
                delegate = tuple(delegate)
            if not isinstance(delegate, tuple):
                delegate = (delegate,)
            return lambda fn: _IffHasAttrDescriptor(fn, delegate,
                                                    attribute_name=fn.__name__)
        me.if_delegate_has_method = if_delegate_has_method

    import sklearn.model_selection._search as ms
    if not hasattr(ms, "_check_param_grid"):
        from collections.abc import Sequence

        def _check_param_grid(param_grid):
            """Port of sklearn 0.24 _check_param_grid."""
            if hasattr(param_grid, "items"):
                param_grid = [param_grid]
            for p in param_grid:
                for name, v in p.items():
                    if isinstance(v, np.ndarray) and v.ndim > 1:
                        raise ValueError("Parameter array should be "
                                         "one-dimensional.")
                    if (isinstance(v, str) or
                            not isinstance(v, (np.ndarray, Sequence))):
                        raise ValueError(
                            "Parameter grid for parameter ({0}) needs to"
                            " be a list or numpy array, but got ({1})."
                            " Single values need to be wrapped in a list"
                            " with one element.".format(name, type(v)))
                    if len(v) == 0:
                        raise ValueError(
                            "Parameter values for parameter ({0}) need "
                            "to be a non-empty sequence.".format(name))
        ms._check_param_grid = _check_param_grid

    # BaseForest(base_estimator=...) / .base_estimator attribute (sklearn <1.2)
    import inspect
    import sklearn.ensemble._base as eb
    import sklearn.ensemble._forest as ef
    for klass in (ef.BaseForest, ef.ForestClassifier, ef.ForestRegressor):
        sig = inspect.signature(klass.__init__)
        if "base_estimator" in sig.parameters or getattr(
                klass.__init__, "_simkit", False):
            continue
        orig = klass.__init__

        def make(orig):
            def __init__(self, *args, base_estimator=None, **kwargs):
                params = list(inspect.signature(orig).parameters)
                if args:
                    # old positional order started with base_estimator too
                    kwargs["estimator"] = args[0]
                    args = args[1:]
                    for a, n in zip(args, params[2:]):
                        kwargs[n] = a
                    args = ()
                if base_estimator is not None:
                    _hit("BaseForest(base_estimator=)")
                    kwargs["estimator"] = base_estimator
                orig(self, **kwargs)
            __init__._simkit = True
            __init__.__signature__ = inspect.signature(orig)
            return __init__
        klass.__init__ = make(orig)
    if not hasattr(ef.BaseForest, "base_estimator"):
        ef.BaseForest.base_estimator = property(
            lambda self: self.__dict__.get("estimator"),
            lambda self, v: self.__dict__.__setitem__("estimator", v))
    if not hasattr(eb.BaseEnsemble, "base_estimator_"):
        eb.BaseEnsemble.base_estimator_ = property(
            lambda self: self.estimator_,
            lambda self, v: setattr(self, "estimator_", v))

    # tree private API: trees in sklearn<1.3 had no monotonic_cst etc. nothing
    # needed.  _generate_unsampled_indices / _generate_sample_indices signatures
    # are unchanged since 0.22.


def _sklearn_post_import():
    """Rebind dependency names that repo modules imported (2 places)."""
    # (1) old 4-tuple _check_reg_targets(y_true, y_pred, multioutput)
    try:
        mod = sys.modules.get("sktime.performance_metrics.forecasting._functions")
        if mod is not None and not getattr(mod._check_reg_targets, "_simkit", False):
            import inspect
            from sklearn.metrics._regression import _check_reg_targets as new
            params = list(inspect.signature(new).parameters)
            if "sample_weight" in params:
                def _check_reg_targets(y_true, y_pred, multioutput, dtype="numeric"):
                    out = new(y_true, y_pred, None, multioutput, dtype=dtype)
                    # (y_type, y_true, y_pred, sample_weight, multioutput)
                    return out[0], out[1], out[2], out[4]
                _check_reg_targets._simkit = True
                mod._check_reg_targets = _check_reg_targets
        # (2) sklearn.metrics.mean_squared_error(..., squared=...) (removed in 1.6)
        if mod is not None and not getattr(mod._mean_squared_error, "_simkit", False):
            import inspect
            from sklearn.metrics import mean_squared_error as mse
            if "squared" not in inspect.signature(mse).parameters:
                def _mean_squared_error(y_true, y_pred, sample_weight=None,
                                        multioutput="uniform_average", squared=True):
                    out = mse(y_true, y_pred, sample_weight=sample_weight,
                              multioutput="raw_values")
                    if not squared:
                        out = np.sqrt(out)
                    if isinstance(multioutput, str):
                        if multioutput == "raw_values":
                            return out
                        return float(np.average(out))
                    return float(np.average(out, weights=multioutput))
                _mean_squared_error._simkit = True
                mod._mean_squared_error = _mean_squared_error
    except Exception:  # pragma: no cover
        raise


# --------------------------------------------------------------------------- scipy
def _scipy():
    import scipy.stats
    try:
        import scipy.stats.morestats as ms
    except Exception:
        ms = types.ModuleType("scipy.stats.morestats")
        sys.modules["scipy.stats.morestats"] = ms
        scipy.stats.morestats = ms
    import scipy.stats._morestats as real
    for n in ("_boxcox_conf_interval", "_calc_uniform_order_statistic_medians",
              "boxcox_normmax", "boxcox_llf", "boxcox", "_normplot",
              "_parse_optimize_arg"):
        if hasattr(real, n):
            try:
                object.__setattr__(ms, n, getattr(real, n))
            except Exception:
                ms.__dict__[n] = getattr(real, n)


# --------------------------------------------------------------------------- numba
def _numba():
    try:
        import numba  # noqa: F401
        return
    except Exception:
        pass
    nb = types.ModuleType("numba")

    def _identity_decorator(*args, **kwargs):
        if len(args) == 1 and callable(args[0]) and not kwargs:
            return args[0]

        def deco(f):
            return f
        return deco

    def vectorize(*args, **kwargs):
        if len(args) == 1 and callable(args[0]) and not kwargs:
            return np.vectorize(args[0])

        def deco(f):
            return np.vectorize(f)
        return deco

    nb.njit = _identity_decorator
    nb.jit = _identity_decorator
    nb.generated_jit = _identity_decorator
    nb.vectorize = vectorize
    nb.guvectorize = _identity_decorator
    nb.prange = range
    nb.__version__ = "0.0-simkit-stub"
    nb.int32 = np.int32
    nb.int64 = np.int64
    nb.float32 = np.float32
    nb.float64 = np.float64
    nb.boolean = np.bool_
    nb.types = types.SimpleNamespace(
        int32=np.int32, int64=np.int64, float32=np.float32, float64=np.float64)
    nb.get_num_threads = lambda: 1
    nb.set_num_threads = lambda n: None
    nb.typed = types.ModuleType("numba.typed")
    nb.typed.List = list
    nb.typed.Dict = dict
    nb.core = types.ModuleType("numba.core")
    sys.modules["numba"] = nb
    sys.modules["numba.typed"] = nb.typed
    sys.modules["numba.core"] = nb.core
    nb._simkit_stub = True


def install():
    global _INSTALLED
    if _INSTALLED:
        return
    _numpy()
    _pandas()
    _sklearn()
    _scipy()
    _numba()
    _INSTALLED = True


def post_import():
    _sklearn_post_import()
