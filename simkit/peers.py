# -*- coding: utf-8 -*-
"""In-process fake peers: deterministic, picklable, cloneable estimators that
record every call they receive and can be armed to fail at their k-th call.

The per-scenario context `CTX` holds the call log, the global event counter
and the fault plan; it is reset by `reset()` at the start of every scenario.
"""
import hashlib

import numpy as np
import pandas as pd
from sklearn.base import BaseEstimator as SkBase
from sklearn.base import ClassifierMixin, RegressorMixin, clone


class InjectedFault(Exception):
    """A peer failing (plain Exception)."""


class InjectedKill(BaseException):
    """A peer being killed (escapes `except Exception`)."""


class Ctx:
    def __init__(self):
        self.reset()

    def reset(self):
        self.log = []          # list of dict records
        self.event = 0         # global event sequence number
        self.calls = 0         # number of fault-eligible calls so far
        self.fail_at = None    # k: the k-th eligible call raises
        self.fail_exc = "fault"
        self.fired = 0
        self.recording = True
        self.armed = True


CTX = Ctx()


def reset():
    CTX.reset()


def arm(k, exc="fault"):
    CTX.calls = 0
    CTX.fail_at = k
    CTX.fail_exc = exc
    CTX.fired = 0


def disarm():
    CTX.fail_at = None


class paused:
    """No recording and no faults inside the block (oracle recomputations)."""

    def __enter__(self):
        self._r, self._a = CTX.recording, CTX.armed
        CTX.recording = False
        CTX.armed = False

    def __exit__(self, *a):
        CTX.recording, CTX.armed = self._r, self._a
        return False


def _record(tag, method, **info):
    """Record a call; raise if the fault plan says so.  The fault fires before
    the peer does any work, so that 'call k failed' has one meaning."""
    rec = None
    if CTX.recording:
        CTX.event += 1
        rec = {"ev": CTX.event, "tag": tag, "m": method}
        rec.update(info)
        CTX.log.append(rec)
    _maybe_fail(method)
    return rec


def _maybe_fail(method):
    if CTX.armed and method in ("fit", "predict", "update", "transform",
                                "inverse_transform", "fit_transform"):
        CTX.calls += 1
        if CTX.fail_at is not None and CTX.calls == CTX.fail_at:
            CTX.fired += 1
            if CTX.recording:
                CTX.log[-1]["failed"] = True
            if CTX.fail_exc == "kill":
                raise InjectedKill("injected kill at call %d" % CTX.calls)
            raise InjectedFault("injected fault at call %d" % CTX.calls)


def _h(*parts):
    m = hashlib.sha256()
    for p in parts:
        m.update(repr(p).encode())
        m.update(b"|")
    return int.from_bytes(m.digest()[:8], "big")


# ------------------------------------------------------------------ panel spies
def _instance_ids(X):
    """Instance identity = first value of the first column's series."""
    ids = []
    col = X.iloc[:, 0]
    for cell in col:
        v = cell.iloc[0] if isinstance(cell, pd.Series) else np.asarray(cell)[0]
        ids.append(int(round(float(v))))
    return ids


class _PanelSpy(SkBase):
    def __init__(self, tag="spy", salt=0):
        self.tag = tag
        self.salt = salt      # a hyper-parameter: another salt, other predictions

    def fit(self, X, y):
        ids = _instance_ids(X)
        _record(self.tag, "fit", ids=list(ids), cols=[str(c) for c in X.columns],
                y=[str(v) for v in np.asarray(y)])
        # state that survives a second fit of the same object (as a warm-started estimator
        # has): predictions then differ from those of a clone fitted once on this fold
        self.n_fits_ = getattr(self, "n_fits_", 0) + 1
        self.train_print_ = _h(sorted(zip(ids, [str(v) for v in np.asarray(y)])),
                               [str(c) for c in X.columns], self.n_fits_)
        self.classes_ = np.unique(np.asarray(y))
        # when (in simulated event order) this fit happened: no effect on predictions, but two
        # fits of equal clones leave distinguishable pickles
        self.fit_event_ = CTX.event
        return self

    def _values(self, X):
        ids = _instance_ids(X)
        cols = [str(c) for c in X.columns]
        if self.salt:
            return ids, [_h(self.tag, self.train_print_, i, cols, self.salt) for i in ids]
        return ids, [_h(self.tag, self.train_print_, i, cols) for i in ids]


class SpyClassifier(ClassifierMixin, _PanelSpy):
    def predict(self, X):
        if not hasattr(self, "train_print_"):
            raise RuntimeError("SpyClassifier.predict before fit")
        ids, hs = self._values(X)
        _record(self.tag, "predict", ids=list(ids))
        return np.array([h % 9973 for h in hs], dtype=np.int64)


class SpyRegressor(RegressorMixin, _PanelSpy):
    def predict(self, X):
        if not hasattr(self, "train_print_"):
            raise RuntimeError("SpyRegressor.predict before fit")
        ids, hs = self._values(X)
        _record(self.tag, "predict", ids=list(ids))
        # (values with a full 17-digit decimal expansion: a store that does not round-trip
        # floats exactly shows)
        return np.array([(h % 1000003) / 64.0 + (h % 9973) / 9973.0 / 1000.0 for h in hs], dtype=float)


def salt_scorer(estimator, X, y=None):
    """Scorer for QuietSearch: the larger salt wins (the default, 0, never does)."""
    return float(estimator.salt)


from sklearn.model_selection import GridSearchCV  # noqa: E402


class QuietSearch(GridSearchCV):
    """scikit-learn's GridSearchCV (a real one: subclassed only to keep the books) around a
    panel spy. The fits and predictions made INSIDE the search are not events of the run under
    test: the search's own fit / predict are recorded, under the spy's tag, and can be armed to
    fail like any other peer call."""

    def fit(self, X, y=None, **params):
        ids = _instance_ids(X)
        _record(self.estimator.tag, "fit", ids=list(ids), cols=[str(c) for c in X.columns],
                y=[str(v) for v in np.asarray(y)])
        with paused():
            return super().fit(X, y, **params)

    def predict(self, X):
        _record(self.estimator.tag, "predict", ids=list(_instance_ids(X)))
        with paused():
            return super().predict(X)


def quiet_search(spy):
    from sklearn.model_selection import KFold
    return QuietSearch(spy, {"salt": [1, 2]}, scoring=salt_scorer, cv=KFold(2), refit=True)


# ------------------------------------------------------------------ tabular stub
class StubRegressor(RegressorMixin, SkBase):
    """Deterministic tabular regressor for the reductions and for stacking.

    fit: ordinary least squares on [1, row mean, last column] (closed form, so
    translation of the *time index* cannot matter and results are smooth in
    the data).  predict returns a 0-d array for a single row, which is what
    sktime 0.6.0's `y_pred[i] = estimator.predict(X_pred)` needs under
    numpy >= 2.4 (DESIGN.md section 2, gap 3).  Records X and y digests.
    """

    def __init__(self, tag="stub", ridge=1e-6):
        self.tag = tag
        self.ridge = ridge

    @staticmethod
    def _feat(X):
        X = np.asarray(X, dtype=float)
        if X.ndim == 1:
            X = X.reshape(1, -1)
        return np.column_stack([np.ones(len(X)), X.mean(axis=1), X[:, -1]])

    def fit(self, X, y):
        Xa = np.asarray(X, dtype=float)
        ya = np.asarray(y, dtype=float)
        _record(self.tag, "fit", shape=list(Xa.shape), obj=id(self),
                X=np.round(Xa, 9).tolist() if Xa.size <= 400 else None,
                y=np.round(ya, 9).tolist() if ya.size <= 400 else None)
        F = self._feat(Xa)
        A = F.T @ F + self.ridge * np.eye(F.shape[1])
        if ya.ndim == 1:
            self.coef_ = np.linalg.solve(A, F.T @ ya)
        else:
            self.coef_ = np.linalg.solve(A, F.T @ ya)
        self.n_features_in_ = Xa.shape[1] if Xa.ndim > 1 else 1
        return self

    def predict(self, X):
        Xa = np.asarray(X, dtype=float)
        _record(self.tag, "predict", shape=list(Xa.shape),
                X=np.round(Xa, 9).tolist() if Xa.size <= 400 else None)
        out = self._feat(Xa) @ self.coef_
        if out.ndim == 1 and out.shape[0] == 1:
            return out.reshape(())  # 0-d for a single row
        return out


# ------------------------------------------------------------------ forecaster spy
def _series_info(y):
    if y is None:
        return None
    idx = list(y.index)
    if len(idx) == 0:
        return {"n": 0}
    vals = np.asarray(y.values, dtype=float)
    return {"n": len(idx), "first": _lab(idx[0]), "last": _lab(idx[-1]),
            "dig": hashlib.sha256(np.round(vals, 8).tobytes()).hexdigest()[:12]}


def _lab(t):
    try:
        return int(t)
    except Exception:
        return str(t)


def _fh_info(fh):
    if fh is None:
        return None
    try:
        from sktime.forecasting.base import ForecastingHorizon
        if isinstance(fh, ForecastingHorizon):
            return {"rel": bool(fh.is_relative), "v": [_lab(v) for v in fh.to_pandas()]}
    except Exception:
        pass
    return {"rel": True, "v": [_lab(v) for v in np.atleast_1d(np.asarray(fh))]}


def _make_spy_forecaster():
    """Defined lazily: needs sktime (imported after the compat layer)."""
    from sktime.forecasting.base import BaseForecaster

    class SpyForecaster(BaseForecaster):
        """Records every call; delegates to a clone of `inner` (a real sktime
        forecaster).  Output is whatever the inner forecaster returns."""

        _required_parameters = ["inner"]

        def __init__(self, inner, tag="spyf"):
            self.inner = inner
            self.tag = tag
            super(SpyForecaster, self).__init__()

        def fit(self, y, X=None, fh=None, **fit_params):
            _record(self.tag, "fit", y=_series_info(y), X=_series_info(X), fh=_fh_info(fh),
                    obj=id(self), fit_params=dict(fit_params))
            self.inner_ = clone(self.inner)
            self.inner_.fit(y, X, fh=fh)  # (fit_params are the spy's own, recorded above)
            self._is_fitted = True
            return self

        def predict(self, fh=None, X=None, return_pred_int=False, alpha=0.05):
            self.check_is_fitted()
            rec = _record(self.tag, "predict", fh=_fh_info(fh), X=_series_info(X), obj=id(self))
            out = self.inner_.predict(fh, X, return_pred_int=return_pred_int, alpha=alpha)
            if rec is not None and isinstance(out, pd.Series):
                rec["out"] = [float(v) for v in out.values]
                rec["out_index"] = [_lab(t) for t in out.index]
            return out

        def update(self, y, X=None, update_params=True):
            self.check_is_fitted()
            _record(self.tag, "update", y=_series_info(y), X=_series_info(X),
                    up=bool(update_params), obj=id(self))
            self.inner_.update(y, X, update_params=update_params)
            return self

        def update_predict(self, y, cv=None, X=None, update_params=True,
                           return_pred_int=False, alpha=0.05):
            self.check_is_fitted()
            return self.inner_.update_predict(y, cv=cv, X=X, update_params=update_params,
                                              return_pred_int=return_pred_int, alpha=alpha)

        def update_predict_single(self, y_new, fh=None, X=None, update_params=True,
                                  return_pred_int=False, alpha=0.05):
            self.check_is_fitted()
            self.update(y_new, X, update_params=update_params)
            return self.predict(fh, X, return_pred_int=return_pred_int, alpha=alpha)

        @property
        def cutoff(self):
            return self.inner_.cutoff

        def _set_cutoff(self, cutoff):
            # (as sktime's own forecasters: composites move their parts' cutoffs with theirs)
            if hasattr(self, "inner_") and hasattr(self.inner_, "_set_cutoff"):
                self.inner_._set_cutoff(cutoff)

        def get_fitted_params(self):
            return self.inner_.get_fitted_params()

    SpyForecaster.__module__ = "simkit.peers"
    SpyForecaster.__qualname__ = "SpyForecaster"
    return SpyForecaster


_SPY_CACHE = {}


def __getattr__(name):
    if name == "SpyForecaster":
        if name not in _SPY_CACHE:
            _SPY_CACHE[name] = _make_spy_forecaster()
            globals()[name] = _SPY_CACHE[name]
        return _SPY_CACHE[name]
    if name == "XIncrementForecaster":
        if name not in _SPY_CACHE:
            _SPY_CACHE[name] = _make_xinc_forecaster()
            globals()[name] = _SPY_CACHE[name]
        return _SPY_CACHE[name]
    if name == "FailingNaive":
        if name not in _SPY_CACHE:
            _SPY_CACHE[name] = _make_failing_naive()
            globals()[name] = _SPY_CACHE[name]
        return _SPY_CACHE[name]
    if name == "XNaive":
        if name not in _SPY_CACHE:
            _SPY_CACHE[name] = _make_x_naive()
            globals()[name] = _SPY_CACHE[name]
        return _SPY_CACHE[name]
    if name == "SpyTransformer":
        if name not in _SPY_CACHE:
            _SPY_CACHE[name] = _make_spy_transformer()
            globals()[name] = _SPY_CACHE[name]
        return _SPY_CACHE[name]
    raise AttributeError(name)


def _make_failing_naive():
    from sktime.forecasting.naive import NaiveForecaster

    class FailingNaive(NaiveForecaster):
        """A real NaiveForecaster whose fit raises when the training series has exactly
        `fail_len` points (fault injection by data: e.g. only the refit on the whole series
        fails, never a fit on a fold)."""

        def __init__(self, strategy="last", window_length=None, sp=1, fail_len=None):
            self.fail_len = fail_len
            super(FailingNaive, self).__init__(strategy=strategy, window_length=window_length, sp=sp)

        def fit(self, y, X=None, fh=None):
            if self.fail_len is not None and len(y) == self.fail_len:
                self._is_fitted = False
                raise InjectedFault("injected: fit on %d points fails" % len(y))
            return super(FailingNaive, self).fit(y, X=X, fh=fh)

    FailingNaive.__module__ = "simkit.peers"
    FailingNaive.__qualname__ = "FailingNaive"
    return FailingNaive


def _make_x_naive():
    from sktime.forecasting.naive import NaiveForecaster

    class XNaive(NaiveForecaster):
        """A real NaiveForecaster whose forecasts also depend on the exogenous data it was
        FITTED with (a level shift by the mean of X's first column), so that a fit that
        silently loses X is visible in the forecasts."""

        def fit(self, y, X=None, fh=None):
            self.x_level_ = 0.0 if X is None else float(np.asarray(X.iloc[:, 0], float).mean())
            return super(XNaive, self).fit(y, X=X, fh=fh)

        def _predict_last_window(self, fh, X=None, return_pred_int=False, alpha=0.05):
            out = super(XNaive, self)._predict_last_window(fh, X=X, return_pred_int=return_pred_int,
                                                          alpha=alpha)
            return out + self.x_level_

    XNaive.__module__ = "simkit.peers"
    XNaive.__qualname__ = "XNaive"
    return XNaive


def _make_spy_transformer():
    from sktime.transformations.base import _SeriesToSeriesTransformer

    class SpyTransformer(_SeriesToSeriesTransformer):
        """Records every call; delegates to a clone of `inner` (a real series
        transformer).  Tags are those of the inner transformer."""

        _required_parameters = ["inner"]

        def __init__(self, inner, tag="spyt"):
            self.inner = inner
            self.tag = tag
            super(SpyTransformer, self).__init__()

        def _all_tags(self):
            return type(self.inner)._all_tags()

        def fit(self, Z, X=None):
            _record(self.tag, "fit", y=_series_info(Z), obj=id(self))
            self.inner_ = clone(self.inner)
            self.inner_.fit(Z, X)
            self._is_fitted = True
            return self

        def transform(self, Z, X=None):
            self.check_is_fitted()
            _record(self.tag, "transform", y=_series_info(Z), obj=id(self))
            return self.inner_.transform(Z, X)

        def fit_transform(self, Z, X=None):
            return self.fit(Z, X).transform(Z, X)

        def inverse_transform(self, Z, X=None):
            self.check_is_fitted()
            _record(self.tag, "inverse_transform", y=_series_info(Z), obj=id(self))
            return self.inner_.inverse_transform(Z, X)

        def update(self, Z, X=None, update_params=True):
            self.check_is_fitted()
            _record(self.tag, "update", y=_series_info(Z), up=bool(update_params), obj=id(self))
            if hasattr(self.inner_, "update"):
                self.inner_.update(Z, X, update_params=update_params)
            return self

    SpyTransformer.__module__ = "simkit.peers"
    SpyTransformer.__qualname__ = "SpyTransformer"
    return SpyTransformer


def _make_xinc_forecaster():
    from sktime.forecasting.base._sktime import (_OptionalForecastingHorizonMixin,
                                                 _SktimeForecaster)

    class XIncrementForecaster(_OptionalForecastingHorizonMixin, _SktimeForecaster):
        """Peer forecaster that really uses exogenous data at predict time: the forecast for
        time t is the last observed value plus the sum of X's first column over (cutoff, t].
        It needs every X row between the cutoff and the last requested time point."""

        def __init__(self, scale=1.0):
            self.scale = scale
            super(XIncrementForecaster, self).__init__()

        def fit(self, y, X=None, fh=None):
            self._set_y_X(y, X)
            self._set_fh(fh)
            self.last_ = float(y.iloc[-1])
            self._is_fitted = True
            return self

        def _predict(self, fh, X=None, return_pred_int=False, alpha=0.05):
            idx = fh.to_absolute(self.cutoff).to_pandas()
            out = []
            for t in idx:
                if X is None:
                    out.append(self.last_)
                    continue
                rows = X.loc[(X.index > self.cutoff) & (X.index <= t)]
                expected = int(t - self.cutoff)
                inc = float(rows.iloc[:, 0].sum()) if len(rows) == expected else float("nan")
                out.append(self.last_ + self.scale * inc)
            return pd.Series(out, index=idx)

    XIncrementForecaster.__module__ = "simkit.peers"
    XIncrementForecaster.__qualname__ = "XIncrementForecaster"
    return XIncrementForecaster
