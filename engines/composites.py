# -*- coding: utf-8 -*-
"""C09 - composite forecasters mean exactly the composition of their parts.

Real EnsembleForecaster / TransformedTargetForecaster / MultiplexForecaster /
StackingForecaster are built from recording spies that wrap real forecasters
and real series transformers (possibly composites themselves); the oracle is a
reference interpreter holding independently fitted clones of the parts, driven
through the same history, plus data-flow checks over the spies' call log."""
import hashlib
import json

import numpy as np
import pandas as pd

from engines import common as C
from simkit import peers, sched
from simkit.core import RunResult, ddmin_list, short_hash

LEVEL = {"C09": "exploration"}
TIERS = {"C09": (2500, 150, 60000, 1200)}
PROBES = {"C09": ["ensemble", "pipeline", "multiplexer", "stacking", "online_ensemble", "member_list_reconfigured_without_refit", "hedge_weights_learnt", "hedge_batch_of_several", "nested_member",
                  "skip_inverse_transform_tag", "update_propagation_checked",
                  "final_forecaster_representation_checked", "holdout_checked",
                  "members_are_clones_checked", "parallel_member_fit", "update_params_false",
                  "reconfigured_and_refitted", "multiplexer_intervals_checked",
                  "weights_from_out_of_sample_forecasts_checked", "pipeline_as_transformer_step",
                  "member_fit_params_checked", "sibling_from_same_arguments", "absolute_horizon_at_fit"]}
FAULT_KINDS = {"C09": ["schedule_ooo", "schedule_interleave", "overlap_batch", "pickle_roundtrip",
                       "shared_constructor_arguments"]}
RULE = {"C09": (
    "seeded composition (ensemble/pipeline/multiplexer/stacking over spy-wrapped real forecasters "
    "and transformers, members optionally composites themselves) x series x horizon x history "
    "fit, predict, (update(batch, update_params), predict)*; ensemble/stacking member fits under "
    "the simulated scheduler. Non-trivial = at least one update followed by a checked predict, or "
    "member fits executed by >=2 simulated parallel tasks under a non-FIFO schedule; distinct = "
    "canonical scenario JSON + schedule trace.")}
ASSUMPTIONS = {"C09": [
    "the parts themselves are trusted here (their own semantics are C03/C10/C13); the oracle "
    "recomputes with independent clones of the same parts",
    "stub regressor as stacking meta-learner (records its training matrix)"]}


def generate(prop, rng, tier):
    big = tier == "thorough"
    kind = rng.choice(["ensemble", "ensemble", "ttf", "ttf", "ttf", "mux", "stack", "stack", "online"])
    slow = rng.random() < 0.15

    def member():
        if rng.random() < 0.2:
            return C.gen_forecaster(rng, depth=1, allow_slow=False, kinds=("ensemble", "ttf", "mux"))
        m = C.gen_leaf(rng, allow_slow=slow)
        return m

    steps = sorted(rng.sample(range(1, 7), rng.randint(1, 3)))
    if kind == "ensemble":
        spec = {"kind": "ensemble", "members": [member() for _ in range(rng.randint(2, 4))],
                "aggfunc": rng.choice(["mean", "median", "min", "max"]),
                "n_jobs": rng.choice([None, 1, 2, 3, 4])}
    elif kind == "online":
        # OnlineEnsembleForecaster without a weighting algorithm: uniform weights
        spec = {"kind": "online", "members": [C.gen_leaf(rng, allow_slow=False) for _ in range(rng.randint(2, 3))],
                "aggfunc": "mean", "n_jobs": rng.choice([None, 2])}
        if rng.random() < 0.6:
            # with a weighting algorithm (non-negative least squares on the members' forecasts
            # of each new batch, made BEFORE the members see that batch)
            simple = [{"kind": "naive", "strategy": "last", "sp": 1, "window_length": None},
                      {"kind": "naive", "strategy": "mean", "sp": 1, "window_length": rng.choice([3, 5])},
                      {"kind": "trend", "degree": 1, "with_intercept": True},
                      {"kind": "naive", "strategy": "drift", "sp": 1, "window_length": None}]
            spec["members"] = rng.sample(simple, rng.randint(2, 3))
            spec["algo"] = rng.choice(["nnls", "nnls", "hedge"])
    elif kind == "mux":
        ms = [member() for _ in range(rng.randint(2, 3))]
        spec = {"kind": "mux", "members": ms, "selected": rng.randrange(len(ms))}
        if rng.random() < 0.3:   # a selected member that offers prediction intervals
            ms[spec["selected"]] = {"kind": "theta", "sp": rng.choice([1, 2]), "deseasonalize": rng.random() < 0.6}
        spec["alpha"] = rng.choice([0.05, 0.1, 0.2, 0.5])
    elif kind == "stack":
        spec = {"kind": "stack", "members": [C.gen_leaf(rng, allow_slow=False) for _ in range(rng.randint(2, 3))],
                "n_jobs": rng.choice([None, None, 2, 3])}
    else:
        ts, positive = [], True
        for _ in range(rng.randint(1, 3)):
            t = rng.choice([C.gen_transformer(rng), C.gen_transformer(rng),
                            {"kind": "imputer", "method": "drift"},
                            {"kind": "hampel", "window_length": 5}])
            if t["kind"] == "hampel":
                ts.append(t)  # outliers become NaN; an imputer has to follow
                t = {"kind": "imputer", "method": rng.choice(["drift", "linear", "nearest"])}
            while not positive and C.needs_positive(t):
                t = C.gen_transformer(rng)
            ts.append(t)
            positive = positive and C.keeps_positive(t)
        if rng.random() < 0.18:
            # a pipeline of two invertible steps used as ONE transformer step of the outer pipeline
            inner, pos2 = [], positive
            for _ in range(2):
                t = C.gen_transformer(rng)
                while (not pos2 and C.needs_positive(t)) or t["kind"] == "optional":
                    t = C.gen_transformer(rng)
                inner.append(t)
                pos2 = pos2 and C.keeps_positive(t)
            ts.append({"kind": "ttf_t", "transformers": inner})
            positive = pos2
        f = member()
        while not positive and C._contains_kind(f, ("theta", "ttf")):
            f = member()
        spec = {"kind": "ttf", "transformers": ts, "forecaster": f}
    if kind != "ttf" and rng.random() < 0.25:
        # member names that are contained in one another ("m", "mm", "mmm")
        spec["names"] = "nested"
    fh_fit = C.needs_fh_at_fit(dict(spec, kind="ensemble") if kind == "online" else spec) or rng.random() < 0.3
    n0 = C.min_train_len(dict(spec, kind="ensemble") if kind == "online" else spec, max(steps)) + \
        rng.randint(2, 14 if not big else 40)
    if C._contains_kind(spec, ("hampel",)):
        n0 = max(n0, 14)
    hist = []
    total = n0
    for _ in range(rng.randint(0, 3 if not big else 5)):
        take = rng.choice([1, 2, 3, 5])
        if C._contains_kind(spec, ("hampel",)):
            take = rng.choice([8, 9, 11])  # a stretch shorter than the filter window cannot be filtered
        hist.append({"take": take, "overlap": rng.choice([0, 0, 1, 2]), "up": rng.random() < 0.6,
                     "pickle": rng.random() < 0.15})
        total += take
    fit_abs = bool(fh_fit) and rng.random() < 0.25
    if fit_abs:
        hist = []      # (an absolute horizon stays the same time points: no moving cutoffs here)
    return {
        "spec": spec, "steps": steps, "fh_at_fit": fh_fit, "n0": n0, "history": hist,
        # the horizon given to fit written as absolute time points
        "fit_abs": fit_abs,
        "refit_other": rng.random() < 0.5 and not fit_abs,
        "series": {"seed": rng.randint(0, 10 ** 6), "n": total + 2, "origin": rng.choice([0, 0, 4, 30, -10]),
                   "index": rng.choice(["range", "range", "int"]), "sp": rng.choice([2, 3, 4])},
        "sched": {"mode": rng.choice(["fifo", "ooo", "interleave", "interleave"]),
                  "seed": rng.randint(0, 10 ** 6), "p": rng.choice([0.01, 0.05, 0.1, 0.3])},
    }


# ------------------------------------------------------------------ building with spies
def _mname(spec, i):
    """Name of member i as the user wrote it: m0, m1, ... or names contained in one another."""
    if spec.get("names") == "nested":
        return "m" * (i + 1)
    return "m%d" % i


def build_spied(spec):
    """The composite under test, its parts wrapped in spies."""
    from sktime.forecasting.compose import (
        EnsembleForecaster, MultiplexForecaster, StackingForecaster, TransformedTargetForecaster)
    SF, ST = peers.SpyForecaster, peers.SpyTransformer
    k = spec["kind"]
    if k == "ensemble":
        return EnsembleForecaster([(_mname(spec, i), SF(C.build(m), tag="m%d" % i))
                                   for i, m in enumerate(spec["members"])],
                                  n_jobs=spec.get("n_jobs"), aggfunc=spec["aggfunc"])
    if k == "online":
        from sktime.forecasting.online_learning import OnlineEnsembleForecaster
        algo = None
        if spec.get("algo") == "nnls":
            from sktime.forecasting.online_learning import NNLSEnsemble
            algo = NNLSEnsemble(n_estimators=len(spec["members"]))
        elif spec.get("algo") == "hedge":
            from sklearn.metrics import mean_squared_error
            from sktime.forecasting.online_learning import NormalHedgeEnsemble
            algo = NormalHedgeEnsemble(n_estimators=len(spec["members"]), loss_func=mean_squared_error)
        return OnlineEnsembleForecaster([(_mname(spec, i), SF(C.build(m), tag="m%d" % i))
                                         for i, m in enumerate(spec["members"])],
                                        ensemble_algorithm=algo, n_jobs=spec.get("n_jobs"))
    if k == "mux":
        return MultiplexForecaster([(_mname(spec, i), SF(C.build(m), tag="m%d" % i))
                                    for i, m in enumerate(spec["members"])],
                                   selected_forecaster=_mname(spec, spec["selected"]))
    if k == "stack":
        return StackingForecaster([(_mname(spec, i), SF(C.build(m), tag="m%d" % i))
                                   for i, m in enumerate(spec["members"])],
                                  final_regressor=peers.StubRegressor(tag="meta"),
                                  n_jobs=spec.get("n_jobs"))
    steps = [("t%d" % i, ST(C.build_transformer(t), tag="t%d" % i))
             for i, t in enumerate(spec["transformers"])]
    steps.append(("f", SF(C.build(spec["forecaster"]), tag="f")))
    return TransformedTargetForecaster(steps)


def _skip_inverse(tspec):
    return tspec["kind"] in ("imputer", "hampel")


# ------------------------------------------------------------------ execution
def execute(prop, scen):
    from sklearn.base import clone
    res = RunResult()
    peers.reset()
    C.reset_caches()
    spec = scen["spec"]
    kind = spec["kind"]
    s = scen["series"]
    y = C.make_series(s["seed"], s["n"], s["origin"], s["index"], sp=s["sp"])
    steps = scen["steps"]
    res.real.update(C.class_names(dict(spec, kind="ensemble") if kind == "online" else spec))
    if kind == "online":
        res.real.add("forecasting.online_learning.OnlineEnsembleForecaster")
    res.stub.update(["SpyForecaster/SpyTransformer around real parts",
                     "joblib backend: simkit SimBackend"])
    if kind == "stack" or C.uses_stub(spec):
        res.stub.add("StubRegressor")
    if kind == "ttf" and any(t["kind"] == "ttf_t" for t in spec["transformers"]):
        res.probe("pipeline_as_transformer_step")
    res.probe({"ensemble": "ensemble", "ttf": "pipeline", "mux": "multiplexer",
               "stack": "stacking", "online": "online_ensemble"}[kind])
    if any(m["kind"] in ("ensemble", "ttf", "mux") for m in spec.get("members", [])) or \
            (kind == "ttf" and spec["forecaster"]["kind"] in ("ensemble", "ttf", "mux")):
        res.probe("nested_member")
    digest = hashlib.sha256()

    def v(cls, detail, **sig):
        sig.setdefault("composite", kind)
        res.violate("C09." + cls, detail, **sig)

    comp = build_spied(spec)
    user_ids = {}
    if kind == "ttf":
        for name, obj in comp.steps:
            user_ids[name] = id(obj)
    else:
        for name, obj in comp.forecasters:
            user_ids[name] = id(obj)
        if kind == "stack":
            user_ids["meta"] = id(comp.final_regressor)
    sc = sched.Scheduler(scen["sched"]["mode"], scen["sched"]["seed"], scen["sched"]["p"])
    ref = Reference(spec, steps)
    pos = scen["n0"]
    y0 = y.iloc[:pos]
    fh_fit = steps if scen["fh_at_fit"] else None

    def run(label, fn):
        try:
            return True, fn()
        except Exception as e:  # noqa
            v("op_raised", "%s raised %s: %s on a valid composition" % (
                label, type(e).__name__, str(e)[:200]), op=label, exc=type(e).__name__)
            return False, None

    fit_kw = {}
    if kind == "mux" and scen["series"]["seed"] % 5 < 2:
        # per-member fit parameters: the selected member gets its own
        fit_kw = {_mname(spec, i): {"spy_marker": i} for i in range(len(spec["members"]))}
    with sched.scenario_schedule(sc):
        mark = len(peers.CTX.log)
        fh_user = fh_fit
        if scen.get("fit_abs") and fh_fit:
            from sktime.forecasting.base import ForecastingHorizon
            fh_user = ForecastingHorizon(pd.Index([int(y0.index[-1]) + s_ for s_ in steps], dtype=np.int64),
                                         is_relative=False)
            res.probe("absolute_horizon_at_fit")
        ok, _ = run("fit", lambda: comp.fit(y0, fh=fh_user, **fit_kw))
        if not ok:
            res.sched = sc.stats()
            res.digest = "fit_raised"
            return res
        with peers.paused():
            s2 = sched.Scheduler("fifo", 0)
            with sched.scenario_schedule(s2):
                try:
                    ref.fit(y0, fh_fit)
                except Exception as e:  # noqa
                    res.digest = "ref_raised"
                    res.sched = sc.stats()
                    return res
        check_fit_dataflow(v, res, spec, peers.CTX.log[mark:], y0, steps, ref, user_ids)
        if fit_kw and not res.violations:
            fits_ = _by_tag(peers.CTX.log[mark:], "m%d" % spec["selected"], "fit")
            res.probe("member_fit_params_checked")
            if fits_ and fits_[0].get("fit_params") != {"spy_marker": spec["selected"]}:
                v("fit_params_misrouted", "the selected member m%d was fitted with fit_params %s, its "
                  "own are {'spy_marker': %d}" % (spec["selected"], fits_[0].get("fit_params"),
                                                  spec["selected"]))
        if scen["series"]["seed"] % 7 < 2 and not res.violations and kind != "online":
            # somebody builds a second composite from the very same constructor arguments (the
            # same list object, the same component objects) and fits it on other data
            with peers.paused():
                try:
                    sib = type(comp)(**comp.get_params(deep=False))
                    with sched.scenario_schedule(sched.Scheduler("fifo", 0)):
                        sib.fit(y0 * 2.0 + 3.0, fh=fh_fit)
                    res.probe("sibling_from_same_arguments")
                    res.fault("shared_constructor_arguments")
                except Exception as e:  # noqa
                    digest.update(("sibling:%s" % type(e).__name__).encode())
        res.ops += 1
        updated = 0
        for hi in range(len(scen["history"]) + 1):
            if res.violations:
                break
            # ---- predict and compare with the reference interpreter
            mark = len(peers.CTX.log)
            ok, p = run("predict", lambda: comp.predict(None if scen["fh_at_fit"] else steps))
            if not ok:
                break
            with peers.paused():
                s2 = sched.Scheduler("fifo", 0)
                with sched.scenario_schedule(s2):
                    try:
                        q = ref.predict()
                    except Exception as e:  # noqa
                        digest.update(b"ref_predict_raised")
                        break
            check_predict(v, res, spec, peers.CTX.log[mark:], p, q, ref, updated)
            digest.update(C.digest_obj(p).encode())
            res.ops += 1
            if updated:
                res.nontrivial = True
            if hi == len(scen["history"]):
                break
            h = scen["history"][hi]
            ov = min(h["overlap"], pos)
            batch = y.iloc[pos - ov: pos + h["take"]]
            pos += h["take"]
            if ov:
                res.fault("overlap_batch")
            if h.get("pickle"):
                with peers.paused():
                    comp = C.pickle_roundtrip(comp)
                res.fault("pickle_roundtrip")
            weights_done = False
            if kind == "online" and spec.get("algo") == "hedge":
                # the hedging rule is only defined while some member has a positive regret
                with peers.paused(), sched.scenario_schedule(sched.Scheduler("fifo", 0)):
                    try:
                        defined = ref.learn_weights(batch)
                    except Exception:
                        defined = False
                weights_done = True
                if not defined:
                    digest.update(b"hedge_undefined")
                    break
                res.probe("hedge_weights_learnt")
                if len(batch) >= 2:
                    res.probe("hedge_batch_of_several")
            mark = len(peers.CTX.log)
            ok, _ = run("update", lambda: comp.update(batch, update_params=h["up"]))
            if not ok:
                break
            if not h["up"]:
                res.probe("update_params_false")
            with peers.paused():
                s2 = sched.Scheduler("fifo", 0)
                with sched.scenario_schedule(s2):
                    try:
                        ref.update(batch, h["up"], weights_done=weights_done) if weights_done \
                            else ref.update(batch, h["up"])
                    except Exception as e:  # noqa
                        digest.update(b"ref_update_raised")
                        break
            check_update_dataflow(v, res, spec, peers.CTX.log[mark:], batch, h["up"], ref)
            updated += 1
            res.ops += 1
            res.states.add(short_hash([kind, updated, h["up"]]))
        # ---- the weighted online ensemble fitted again: it starts from uniform weights, like a
        # new one (what earlier updates taught the weighting algorithm must not survive a fit)
        if kind == "online" and spec.get("algo") and updated and not res.violations:
            y1 = y.iloc[:pos]
            ok, _ = run("fit", lambda: comp.fit(y1, fh=fh_fit))
            if ok:
                ref2 = Reference(spec, steps)
                with peers.paused(), sched.scenario_schedule(sched.Scheduler("fifo", 0)):
                    try:
                        ref2.fit(y1, fh_fit)
                        q = ref2.predict()
                    except Exception:
                        q = None
                if q is not None:
                    ok, p = run("predict", lambda: comp.predict(None if fh_fit else steps))
                    if ok:
                        res.probe("reconfigured_and_refitted")
                        if not C.same_series(p, q):
                            v("stale_state_after_refit", "online ensemble fitted again after %d updates "
                              "forecasts %s, a new one fitted on the same data forecasts %s (weights "
                              "learnt before the second fit are still in use)" % (
                                  updated, C.fmt(p), C.fmt(q)), composite="online")
        # ---- a multiplexer hands every argument of predict on to its selected member
        if kind == "mux" and not res.violations and not scen["fh_at_fit"]:
            a_ = spec.get("alpha", 0.05)
            with peers.paused(), sched.scenario_schedule(sched.Scheduler("fifo", 0)):
                try:
                    q = ref.members[spec["selected"]].predict(steps, return_pred_int=True, alpha=a_)
                except Exception:
                    q = None
            if q is not None:
                ok, p = run("predict", lambda: comp.predict(steps, return_pred_int=True, alpha=a_))
                if ok:
                    res.probe("multiplexer_intervals_checked")
                    same = isinstance(p, tuple) and len(p) == 2 and C.same_series(p[0], q[0]) and \
                        np.asarray(p[1], float).shape == np.asarray(q[1], float).shape and \
                        np.allclose(np.asarray(p[1], float), np.asarray(q[1], float), equal_nan=True)
                    if not same:
                        v("differs_from_composition", "predict(return_pred_int=True, alpha=%s) of the "
                          "multiplexer gives intervals %s, its selected member gives %s" % (
                              a_, np.round(np.asarray(p[1], float)[:2], 4).tolist() if isinstance(p, tuple)
                              else type(p).__name__, np.round(np.asarray(q[1], float)[:2], 4).tolist()),
                          composite="mux", what="intervals")
        # ---- the member list is re-configured (one entry more, or one fewer) and NOT fitted again:
        # the forecast is still the aggregate of the members that were fitted
        if kind == "ensemble" and not scen.get("refit_other") and not res.violations \
                and scen["series"]["seed"] % 3 == 0:
            with peers.paused(), sched.scenario_schedule(sched.Scheduler("fifo", 0)):
                try:
                    q = ref.predict()
                except Exception:
                    q = None
            if q is not None:
                cur = list(comp.forecasters)
                longer = scen["series"]["seed"] % 2 == 0 or len(cur) < 3
                new_list = cur + [("extra", peers.SpyForecaster(C.build(
                    {"kind": "naive", "strategy": "last", "sp": 1, "window_length": None}), tag="extra"))] \
                    if longer else cur[:-1]
                ok, _ = run("set_params", lambda: comp.set_params(forecasters=new_list))
                if ok:
                    ok, p = run("predict", lambda: comp.predict(None if scen["fh_at_fit"] else steps))
                    if ok:
                        res.probe("member_list_reconfigured_without_refit")
                        if not C.same_series(p, q):
                            v("differs_from_composition", "after set_params(forecasters=<%d entries>) "
                              "without a new fit the ensemble forecasts %s, the %s of its %d fitted "
                              "members is %s" % (len(new_list), C.fmt(p), spec["aggfunc"],
                                                 len(cur), C.fmt(q)), reconfigured=True)
        # ---- the same object re-configured and fitted again (set_params then fit)
        if kind in ("mux", "ensemble") and scen.get("refit_other") and not res.violations:  # (not "online")
            y1 = y.iloc[:pos]
            if kind == "mux":
                other = (spec["selected"] + 1) % len(spec["members"])
                spec2 = dict(spec, selected=other)
                run("set_params", lambda: comp.set_params(selected_forecaster=_mname(spec, other)))
            elif len(spec["members"]) >= 2 and scen["series"]["seed"] % 2 == 0:
                # a member is replaced by name with a differently configured forecaster
                new_member = {"kind": "naive", "strategy": "mean", "sp": 1, "window_length": 3}
                if spec["members"][0] == new_member:
                    new_member = {"kind": "trend", "degree": 1, "with_intercept": True}
                spec2 = dict(spec, members=[new_member] + spec["members"][1:])
                repl = peers.SpyForecaster(C.build(new_member), tag="m0")
                run("set_params", lambda: comp.set_params(**{_mname(spec, 0): repl}))
            else:
                agg2 = {"mean": "median", "median": "max", "max": "min", "min": "mean"}[spec["aggfunc"]]
                spec2 = dict(spec, aggfunc=agg2)
                run("set_params", lambda: comp.set_params(aggfunc=agg2))
            fh_fit2 = steps if C.needs_fh_at_fit(spec2) else fh_fit
            mark = len(peers.CTX.log)
            ok, _ = run("fit", lambda: comp.fit(y1, fh=fh_fit2))
            if ok:
                ref2 = Reference(spec2, steps)
                with peers.paused():
                    s2 = sched.Scheduler("fifo", 0)
                    with sched.scenario_schedule(s2):
                        try:
                            ref2.fit(y1, fh_fit2)
                            q = ref2.predict()
                        except Exception:
                            q = None
                if q is not None:
                    mark = len(peers.CTX.log)
                    ok, p = run("predict", lambda: comp.predict(None if fh_fit2 else steps))
                    if ok:
                        res.probe("reconfigured_and_refitted")
                        check_predict(v, res, spec2, peers.CTX.log[mark:], p, q, ref2, 0)
    res.sched = sc.stats()
    if sc.n_tasks:
        res.fault("schedule_interleave" if sc.mode == "interleave" else
                  "schedule_ooo" if sc.mode == "ooo" else "schedule_fifo", sc.n_tasks)
        res.probe("parallel_member_fit")
        if sc.n_tasks >= 2 and sc.mode != "fifo":
            res.nontrivial = True
    res.digest = digest.hexdigest()[:16]
    return res


class _RefNNLS:
    """The documented weighting rule, written out: non-negative least squares of ALL the
    observations seen in updates so far on the members' forecasts made for them (uniform
    weights before the first update)."""

    def __init__(self, n):
        self.weights = np.ones(n) / n
        self.P = np.empty((0, n))
        self.y = np.empty(0)

    def update(self, y_pred, y_true):
        from scipy.optimize import nnls
        self.P = np.vstack([self.P, np.asarray(y_pred, float).T])
        self.y = np.concatenate([self.y, np.asarray(y_true, float)])
        self.weights, _ = nnls(self.P, self.y)


class _RefNormalHedge:
    """NormalHedge (Chaudhuri, Freund, Hsu 2009) written out, with the squared error of each
    member's forecast as its loss: after EVERY observation the cumulative regrets grow by
    (weighted loss - own loss) and the weights become proportional to (r/c) exp(r^2 / 2c) over the
    positive parts r of the regrets, c solving mean(exp(r^2 / 2c)) = e. Uniform weights before
    the first observation. `undefined`: no member has a positive regret (nothing is demanded)."""

    def __init__(self, n):
        self.weights = np.ones(n) / n
        self.R = np.zeros(n)
        self.undefined = False

    def update(self, y_pred, y_true):
        from scipy.optimize import brentq
        P = np.asarray(y_pred, float)          # (members, time points)
        for t, obs in enumerate(np.asarray(y_true, float)):
            loss = (P[:, t] - obs) ** 2
            self.R = self.R + (float(np.dot(self.weights, loss)) - loss)
            r = np.maximum(self.R, 0.0)
            if not np.isfinite(r).all() or r.max() <= 0:
                self.undefined = True
                return
            r = r / r.max()                     # (the weights are invariant to the scale of r)

            def pot(c):
                with np.errstate(over="ignore"):
                    return float(np.mean(np.exp(r ** 2 / (2 * c))) - np.e)
            hi = 0.5
            c = hi if pot(hi) >= 0 else brentq(pot, 1e-3, hi, xtol=1e-15, rtol=1e-14)
            w = (r / c) * np.exp(r ** 2 / (2 * c))
            self.weights = w / w.sum()


class _Chain:
    """Reference for a pipeline used as a transformer step: its leaf transformers composed by
    hand (forward at fit/transform/update, every inverse in reverse order)."""

    def __init__(self, specs):
        self.ts = [C.build_transformer(t) for t in specs]

    def fit_transform(self, z):
        for t in self.ts:
            z = t.fit_transform(z)
        return z

    def transform(self, z):
        for t in self.ts:
            z = t.transform(z)
        return z

    def inverse_transform(self, z):
        for t in reversed(self.ts):
            z = t.inverse_transform(z)
        return z

    def update(self, z, update_params=True):
        for t in self.ts:
            if hasattr(t, "update"):
                t.update(z, update_params=update_params)
            z = t.transform(z)
        return self


class Reference:
    """Reference interpreter: independent clones of the parts, composed by the
    textbook definition of each composite."""

    def __init__(self, spec, steps):
        self.spec = spec
        self.steps = steps
        self.kind = "ensemble" if spec["kind"] == "online" else spec["kind"]

    def fit(self, y, fh):
        k = self.kind
        self.fh_fit = fh
        if k in ("ensemble", "mux"):
            self.members = [C.build(m) for m in self.spec["members"]]
            for i, m in enumerate(self.members):
                if k == "mux" and i != self.spec["selected"]:
                    continue
                m.fit(y, fh=fh)
            self.algo = None
            if self.spec.get("algo") == "nnls":
                self.algo = _RefNNLS(len(self.members))
            elif self.spec.get("algo") == "hedge":
                self.algo = _RefNormalHedge(len(self.members))
        elif k == "ttf":
            self.trs = [_Chain(t["transformers"]) if t["kind"] == "ttf_t" else C.build_transformer(t)
                        for t in self.spec["transformers"]]
            z = y
            self.fit_inputs = []
            for t in self.trs:
                self.fit_inputs.append(z)
                z = t.fit_transform(z)
            self.final_fit_input = z
            self.f = C.build(self.spec["forecaster"])
            self.f.fit(z, fh=fh)
        else:  # stack
            h = max(self.steps)
            n = len(y)
            y_fcst = y.iloc[:n - h]
            test_pos = [n - h - 1 + s for s in self.steps]
            self.holdout_first = y.index[n - h]
            self.y_meta = y.iloc[test_pos].values
            first = [C.build(m).fit(y_fcst, fh=self.steps) for m in self.spec["members"]]
            self.first_preds = [m.predict() for m in first]
            self.X_meta = np.column_stack([np.asarray(p.values, float) for p in self.first_preds])
            self.meta = peers.StubRegressor(tag="refmeta").fit(self.X_meta, self.y_meta)
            self.members = [C.build(m).fit(y, fh=self.steps) for m in self.spec["members"]]

    def member_preds(self):
        fh = None if self.fh_fit is not None and not self.spec.get("algo") else self.steps
        return [m.predict(fh) for m in self.members]

    def predict(self):
        k = self.kind
        fh = None if self.fh_fit is not None else self.steps
        if k == "ensemble":
            P = pd.concat(self.member_preds(), axis=1)
            self.last_member_preds = P
            if getattr(self, "algo", None) is not None:
                return (P * np.asarray(self.algo.weights, float)).sum(axis=1)
            return getattr(P, self.spec["aggfunc"])(axis=1)
        if k == "mux":
            return self.members[self.spec["selected"]].predict(fh)
        if k == "stack":
            P = np.column_stack([np.asarray(p.values, float) for p in self.member_preds()])
            out = self.meta.predict(P)
            return pd.Series(np.atleast_1d(out), index=self.members[0].predict(fh).index)
        z = self.f.predict(fh)
        self.final_forecast = z
        for t, ts in zip(reversed(self.trs), reversed(self.spec["transformers"])):
            if not _skip_inverse(ts):
                z = t.inverse_transform(z)
        return z

    def learn_weights(self, batch):
        """The weighting step of an update, done first: weights from the members' forecasts of
        the batch, made before they see it. False when the rule leaves them undefined."""
        if getattr(self, "algo", None) is not None and len(batch) >= 1:
            steps_ = list(range(1, len(batch) + 1))
            P = np.column_stack([np.asarray(m.predict(steps_).values, float) for m in self.members])
            self.algo.update(P.T, np.asarray(batch.values, float))
            return not getattr(self.algo, "undefined", False)
        return True

    def update(self, batch, up, weights_done=False):
        k = self.kind
        if k in ("ensemble", "stack"):
            if not weights_done:
                self.learn_weights(batch)
            for m in self.members:
                m.update(batch, update_params=up)
        elif k == "mux":
            self.members[self.spec["selected"]].update(batch, update_params=up)
        else:
            z = batch
            self.update_inputs = []
            for t in self.trs:
                self.update_inputs.append(z)
                if hasattr(t, "update"):
                    t.update(z, update_params=up)
                z = t.transform(z)
            self.final_update_input = z
            self.f.update(z, update_params=up)


def _by_tag(log, tag, method=None):
    return [r for r in log if r["tag"] == tag and (method is None or r["m"] == method)]


def _same_info(a, b):
    return a is not None and b is not None and a.get("n") == b.get("n") and \
        a.get("first") == b.get("first") and a.get("last") == b.get("last") and \
        a.get("dig") == b.get("dig")


def _close_info(rec_info, series):
    """Recorded series == expected series (digest of values rounded to 1e-8; fall back to a
    tolerant check on length and end points when rounding boundaries could differ)."""
    exp = peers._series_info(series)
    if _same_info(rec_info, exp):
        return True
    return False


def check_fit_dataflow(v, res, spec, log, y0, steps, ref, user_ids):
    k = "ensemble" if spec["kind"] == "online" else spec["kind"]
    full = peers._series_info(y0)
    if k in ("ensemble", "mux"):
        for i, m in enumerate(spec["members"]):
            fits = _by_tag(log, "m%d" % i, "fit")
            want = 1 if (k == "ensemble" or i == spec["selected"]) else 0
            if len(fits) != want:
                v("member_fit_count", "member m%d was fitted %d times during fit, expected %d" % (
                    i, len(fits), want), member="selected" if want else "unselected")
                return
            if want and not _same_info(fits[0]["y"], full):
                v("member_training_data", "member m%d was fitted on y[%s..%s] (n=%s), the composite "
                  "was given y[%s..%s] (n=%d)" % (i, fits[0]["y"].get("first"), fits[0]["y"].get("last"),
                                                  fits[0]["y"].get("n"), full["first"], full["last"], full["n"]))
                return
            if want and fits[0]["obj"] == user_ids[_mname(spec, i)]:
                v("member_not_cloned", "member m%d: the user's own object was fitted, not a clone" % i)
                return
        res.probe("members_are_clones_checked")
    elif k == "stack":
        h = max(steps)
        n = len(y0)
        holdout_first = int(y0.index[n - h])
        for i in range(len(spec["members"])):
            fits = _by_tag(log, "m%d" % i, "fit")
            if len(fits) != 2:
                v("member_fit_count", "stacking member m%d fitted %d times, expected 2 (hold-out "
                  "round, then all data)" % (i, len(fits)))
                return
            a, b = sorted(fits, key=lambda r: r["y"]["n"])
            if a["y"]["last"] >= holdout_first:
                v("holdout_seen", "stacking member m%d fitted for the meta step saw data up to %s, "
                  "the held-out window starts at %s" % (i, a["y"]["last"], holdout_first))
                return
            if not _same_info(b["y"], full):
                v("member_training_data", "stacking member m%d was not refitted on the whole series" % i)
                return
        meta = _by_tag(log, "meta", "fit")
        if len(meta) != 1:
            v("meta_fit_count", "meta-regressor fitted %d times" % len(meta))
            return
        if meta[0].get("obj") == user_ids.get("meta"):
            v("member_not_cloned", "the user's own final_regressor object was fitted, not a clone "
              "(two stacking forecasters built with the same regressor would overwrite each other)",
              part="final_regressor")
            return
        Xm, ym = np.asarray(meta[0]["X"], float), np.asarray(meta[0]["y"], float)
        if Xm.shape != ref.X_meta.shape or not np.allclose(Xm, ref.X_meta, rtol=1e-7, atol=1e-7):
            v("meta_features", "meta-regressor was trained on X=%s..., member forecasts for the "
              "held-out window from members that did not see it are %s..." % (
                  np.round(Xm.ravel()[:4], 4).tolist(), np.round(ref.X_meta.ravel()[:4], 4).tolist()))
            return
        if ym.shape != ref.y_meta.shape or not np.allclose(ym, ref.y_meta, rtol=1e-7, atol=1e-7):
            v("meta_target", "meta-regressor target %s is not the observed held-out window %s" % (
                np.round(ym[:4], 4).tolist(), np.round(ref.y_meta[:4], 4).tolist()))
            return
        res.probe("holdout_checked")
    else:
        for i, ts in enumerate(spec["transformers"]):
            fits = _by_tag(log, "t%d" % i, "fit")
            if len(fits) != 1:
                v("transformer_fit_count", "transformer t%d fitted %d times" % (i, len(fits)))
                return
            if not _close_info(fits[0]["y"], ref.fit_inputs[i]):
                v("transformer_fit_input", "transformer t%d was not fitted on the output of the "
                  "previous %d steps" % (i, i), step=i)
                return
            if fits[0]["obj"] == user_ids["t%d" % i]:
                v("member_not_cloned", "transformer t%d: the user's own object was fitted" % i)
                return
        ff = _by_tag(log, "f", "fit")
        if len(ff) != 1 or not _close_info(ff[0]["y"], ref.final_fit_input):
            v("final_forecaster_fit_input", "the final forecaster was not fitted on the fully "
              "transformed series")
            return
        res.probe("final_forecaster_representation_checked")


def check_predict(v, res, spec, log, p, q, ref, updated):
    k = "ensemble" if spec["kind"] == "online" else spec["kind"]
    if not isinstance(p, pd.Series):
        v("not_a_series", "predict returned %s" % type(p).__name__)
        return
    if spec.get("algo") == "hedge":
        # (both sides find c numerically: agreement to root-finding accuracy)
        same = isinstance(q, pd.Series) and C.same_index(p.index, q.index) and \
            bool(np.allclose(p.values, q.values, rtol=1e-6, atol=1e-9))
    else:
        same = C.same_series(p, q)
    if not same:
        v("differs_from_composition", "%s forecast %s, the composition of independently fitted "
          "parts gives %s" % (k, C.fmt(p), C.fmt(q)), after_update=updated > 0)
        return
    if k == "ensemble":
        outs = []
        for i in range(len(spec["members"])):
            pr = _by_tag(log, "m%d" % i, "predict")
            if len(pr) != 1 or "out" not in pr[0]:
                v("member_predict_count", "member m%d predicted %d times" % (i, len(pr)))
                return
            outs.append(pr[0]["out"])
        P = pd.DataFrame(np.column_stack(outs))
        if spec.get("algo"):
            agg = (P * np.asarray(ref.algo.weights, float)).sum(axis=1).values
        else:
            agg = getattr(P, spec["aggfunc"])(axis=1).values
        if not C.same_values(agg, p.values):
            v("not_the_aggregate", "ensemble forecast %s is not the %s of its members' forecasts %s"
              % (C.fmt(p), spec["aggfunc"], np.round(agg[:4], 6).tolist()), aggfunc=spec["aggfunc"])
    elif k == "mux":
        for i in range(len(spec["members"])):
            pr = _by_tag(log, "m%d" % i)
            if i != spec["selected"] and pr:
                v("unselected_member_used", "multiplexer called %s on unselected member m%d" % (
                    pr[0]["m"], i))
                return
    elif k == "ttf":
        inv = [r["tag"] for r in log if r["m"] == "inverse_transform"]
        exp = ["t%d" % i for i in reversed(range(len(spec["transformers"])))
               if not _skip_inverse(spec["transformers"][i])]
        if any(_skip_inverse(t) for t in spec["transformers"]):
            res.probe("skip_inverse_transform_tag")
        if inv != exp:
            v("inverse_order", "inverse transforms were applied as %s, expected %s (reverse order, "
              "skipping tagged transformers)" % (inv, exp))


def check_update_dataflow(v, res, spec, log, batch, up, ref):
    k = "ensemble" if spec["kind"] == "online" else spec["kind"]
    info = peers._series_info(batch)
    if k in ("ensemble", "stack", "mux"):
        for i in range(len(spec["members"])):
            ups = _by_tag(log, "m%d" % i, "update")
            want = 1 if (k != "mux" or i == spec["selected"]) else 0
            if len(ups) != want:
                v("update_not_propagated", "update reached member m%d %d times, expected %d" % (
                    i, len(ups), want))
                return
            if want and (not _same_info(ups[0]["y"], info) or ups[0]["up"] != up):
                v("update_not_propagated", "member m%d was updated with different data or "
                  "update_params than the composite" % i)
                return
            if spec.get("algo") and len(batch) >= 1:
                seq = [r["m"] for r in _by_tag(log, "m%d" % i) if r["m"] in ("predict", "update")]
                res.probe("weights_from_out_of_sample_forecasts_checked")
                if seq[:2] != ["predict", "update"]:
                    v("member_saw_batch_before_forecasting_it", "online ensemble update: member m%d "
                      "received %s; its forecasts of the new batch (used to learn the weights) must "
                      "be made before it is updated with that batch" % (i, seq[:3]))
                    return
        res.probe("update_propagation_checked")
        return
    for i, ts in enumerate(spec["transformers"]):
        ups = _by_tag(log, "t%d" % i, "update")
        if len(ups) != 1:
            v("update_not_propagated", "transformer t%d received %d updates" % (i, len(ups)))
            return
        if not _close_info(ups[0]["y"], ref.update_inputs[i]):
            v("transformer_update_input", "transformer t%d was updated with data that is not the "
              "output of the previous %d steps" % (i, i), step=i)
            return
    fu = _by_tag(log, "f", "update")
    if len(fu) != 1:
        v("update_not_propagated", "final forecaster received %d updates" % len(fu))
        return
    if not _close_info(fu[0]["y"], ref.final_update_input):
        raw = _same_info(fu[0]["y"], info)
        v("inner_update_not_transformed", "the final forecaster was updated with data that is not "
          "in the transformed representation it was fitted in%s" % (
              " (it received the raw observations)" if raw else ""), raw=raw)
        return
    res.probe("final_forecaster_representation_checked")
    res.probe("update_propagation_checked")


# ------------------------------------------------------------------ shrinking
def shrink_candidates(prop, scen):
    s = json.loads(json.dumps(scen))
    if s["history"]:
        for cand in ddmin_list(s["history"]):
            yield dict(s, history=cand)
    if s.get("refit_other"):
        yield dict(s, refit_other=False)
    spec = s["spec"]
    if spec["kind"] in ("ensemble", "mux", "stack") and len(spec["members"]) > 2:
        for i in range(len(spec["members"])):
            ms = spec["members"][:i] + spec["members"][i + 1:]
            s2 = dict(spec, members=ms)
            if spec["kind"] == "mux":
                s2["selected"] = min(spec["selected"], len(ms) - 1)
            yield dict(s, spec=s2)
    if spec["kind"] == "ttf" and len(spec["transformers"]) > 1:
        for i in range(len(spec["transformers"])):
            yield dict(s, spec=dict(spec, transformers=spec["transformers"][:i] + spec["transformers"][i + 1:]))
    simple = {"kind": "naive", "strategy": "last", "sp": 1, "window_length": None}
    for i, m in enumerate(spec.get("members", [])):
        if m != simple:
            yield dict(s, spec=dict(spec, members=spec["members"][:i] + [simple] + spec["members"][i + 1:]))
    if spec["kind"] == "ttf" and spec["forecaster"] != simple:
        yield dict(s, spec=dict(spec, forecaster=simple))
    if spec.get("n_jobs"):
        yield dict(s, spec=dict(spec, n_jobs=None))
    if s["sched"]["mode"] != "fifo":
        yield dict(s, sched=dict(s["sched"], mode="fifo"))
    if len(s["steps"]) > 1:
        yield dict(s, steps=s["steps"][:1])
    if s["series"]["origin"]:
        yield dict(s, series=dict(s["series"], origin=0))
    for i, h in enumerate(s["history"]):
        for key, small in (("overlap", 0), ("pickle", False), ("take", 1)):
            if h.get(key) not in (small, None):
                h2 = dict(h)
                h2[key] = small
                yield dict(s, history=s["history"][:i] + [h2] + s["history"][i + 1:])
