# -*- coding: utf-8 -*-
"""C04 - every estimator obeys the scikit-learn protocol: parameters, clone,
fitted state.  A lifecycle state machine is run over every importable estimator
class: construct, get/set_params (flat, nested, component replacement, unknown),
clone, apply-type calls before fit, fit, clone of the fitted object, pickle."""
import hashlib
import inspect
import json
import pickle

import numpy as np
import pandas as pd

from engines import common as C
from simkit import peers, sched
from simkit.core import RunResult, ddmin_list, short_hash

LEVEL = {"C04": "exploration"}
TIERS = {"C04": (2600, 160, 40000, 1200)}
PROBES = {"C04": ["constructor_args_varied", "nested_param_set", "component_replaced",
                  "unknown_param_rejected", "clone_of_fitted", "not_fitted_calls_checked",
                  "fit_leaves_params_checked", "composite_depth2", "pickle_unfitted",
                  "ordered_set_params", "deep_names_checked", "params_after_update_checked",
                  "second_fit_checked", "failed_fit_checked", "failed_refit_checked",
                  "keyword_arguments_checked", "separate_instance_checked"]}
FAULT_KINDS = {"C04": ["clone_midway", "pickle_roundtrip", "set_params_midway"]}
RULE = {"C04": (
    "for a seeded choice of estimator class (all 76 importable classes), constructor-argument "
    "assignment (type-appropriate pools, components drawn recursively) and a random lifecycle "
    "history over {get_params, set_params (flat / nested / component / unknown / ordered mix), "
    "clone, apply-type call before fit, fit, clone of fitted, pickle}. Non-trivial = a history "
    "with at least one fit or one mutation of parameters followed by a checked invariant; "
    "distinct = canonical scenario JSON.")}
ASSUMPTIONS = {"C04": [
    "classes that cannot be imported in the sandbox are listed as not covered (no static "
    "substitute is used for a verdict)",
    "apply-type methods are called with arguments that would be valid after fit"]}

APPLY_METHODS = ("predict", "predict_proba", "transform", "inverse_transform", "update",
                 "update_predict", "update_predict_single", "score")


# ------------------------------------------------------------------ construction table
def _naive(**kw):
    from sktime.forecasting.naive import NaiveForecaster
    return NaiveForecaster(**kw)


def _trend(**kw):
    from sktime.forecasting.trend import PolynomialTrendForecaster
    return PolynomialTrendForecaster(**kw)


def _tsf(n=2, rs=1):
    from sktime.classification.interval_based import TimeSeriesForestClassifier
    return TimeSeriesForestClassifier(n_estimators=n, random_state=rs)


def _tsfr(n=2):
    from sktime.regression.interval_based import TimeSeriesForestRegressor
    return TimeSeriesForestRegressor(n_estimators=n, random_state=1)


def _first_column(X):
    """A callable column specifier (resolved against the data at fit time)."""
    return [0]


def required_args(name, rng):
    """Required constructor arguments (and the composite attribute holding named parts)."""
    from sklearn.linear_model import LinearRegression
    from sklearn.preprocessing import MinMaxScaler, StandardScaler
    from sktime.forecasting.model_selection import SlidingWindowSplitter
    from sktime.transformations.series.detrend import Deseasonalizer, Detrender
    r = rng.random()
    if name == "ColumnEnsembleClassifier":
        ests = [("a", _tsf(2), [0]), ("b", _tsf(3, 2), [0])]
        if r < 0.4:
            ests.insert(rng.randrange(3), ("c", "drop", [0]))
        if rng.random() < 0.35:
            # a callable column specifier for one component
            j = rng.randrange(len(ests))
            if ests[j][1] != "drop":
                ests[j] = (ests[j][0], ests[j][1], _first_column)
        if rng.random() < 0.4:
            # a plain scikit-learn estimator as a component (a pipeline that tabularises first)
            from sklearn.pipeline import make_pipeline
            from sklearn.tree import DecisionTreeClassifier
            from sktime.transformations.panel.reduce import Tabularizer
            ests.insert(rng.randrange(len(ests) + 1),
                        ("sk", make_pipeline(Tabularizer(), DecisionTreeClassifier(max_depth=2,
                                                                                   random_state=1)), [0]))
        return {"estimators": ests}
    if name in ("EnsembleForecaster", "OnlineEnsembleForecaster"):
        ms = [("a", _naive()), ("b", _trend(degree=rng.choice([1, 2])))]
        if r < 0.4:
            from sktime.forecasting.compose import EnsembleForecaster
            ms.append(("c", EnsembleForecaster([("x", _naive(strategy="mean")), ("y", _trend())])))
        if name == "OnlineEnsembleForecaster" and rng.random() < 0.6:
            # with a weighting algorithm (an object that learns during update)
            from sklearn.metrics import mean_squared_error
            from sktime.forecasting.online_learning import NNLSEnsemble, NormalHedgeEnsemble
            algo = rng.choice([NNLSEnsemble, NormalHedgeEnsemble])
            return {"forecasters": ms, "ensemble_algorithm": algo(n_estimators=len(ms),
                                                                  loss_func=mean_squared_error)}
        return {"forecasters": ms}
    if name == "MultiplexForecaster":
        return {"forecasters": [("a", _naive()), ("b", _trend())], "selected_forecaster": rng.choice(["a", "b"])}
    if name == "TransformedTargetForecaster":
        steps = [("d", Detrender(forecaster=_trend(degree=1)) if r > 0.5 else Detrender())]
        if r < 0.5:
            steps.append(("s", Deseasonalizer(sp=rng.choice([1, 2]))))
        f = _naive(strategy=rng.choice(["last", "mean"]))
        if r < 0.25:
            from sktime.forecasting.compose import EnsembleForecaster
            f = EnsembleForecaster([("x", _naive()), ("y", _trend())])
        steps.append(("f", f))
        if rng.random() < 0.25:
            return {"steps": tuple(steps)}   # (a tuple of pairs instead of a list)
        return {"steps": steps}
    if name.endswith("TabularRegressionForecaster"):
        return {"estimator": peers.StubRegressor() if not name.startswith("Multioutput") else LinearRegression(),
                "window_length": rng.choice([3, 4])}
    if name.endswith("TimeSeriesRegressionForecaster"):
        return {"estimator": _tsfr(), "window_length": rng.choice([4, 5])}
    if name == "StackingForecaster":
        return {"forecasters": [("a", _naive()), ("b", _trend())], "final_regressor": LinearRegression()}
    if name == "HCrystalBallForecaster":
        return {"model": LinearRegression()}
    if name == "ForecastingGridSearchCV" and r < 0.4:
        from sktime.forecasting.compose import TransformedTargetForecaster
        return {"forecaster": TransformedTargetForecaster([("d", Detrender()), ("f", _trend())]),
                "cv": SlidingWindowSplitter(fh=[1], window_length=6, step_length=4),
                # a component object listed in the grid, with nested parameters of that component
                "param_grid": {"f": [_naive(strategy="mean")], "f__window_length": [3, 4]}}
    if name == "ForecastingGridSearchCV":
        return {"forecaster": _naive(), "cv": SlidingWindowSplitter(fh=[1], window_length=6, step_length=4),
                "param_grid": {"strategy": ["last", "mean"]}}
    if name == "ForecastingRandomizedSearchCV":
        return {"forecaster": _naive(), "cv": SlidingWindowSplitter(fh=[1], window_length=6, step_length=4),
                "param_distributions": {"strategy": ["last", "mean", "drift"]}, "n_iter": 2, "random_state": 3}
    if name == "FeatureUnion":
        from sktime.transformations.panel.dictionary_based import PAA
        from sktime.transformations.panel.slope import SlopeTransformer
        return {"transformer_list": [("p", PAA(num_intervals=2)), ("s", SlopeTransformer(num_intervals=2))]}
    if name == "ColumnTransformer":
        from sktime.transformations.panel.dictionary_based import PAA
        return {"transformers": [("p", PAA(num_intervals=2), [0])]}
    if name == "SeriesToPrimitivesRowTransformer":
        from sklearn.preprocessing import FunctionTransformer
        return {"transformer": FunctionTransformer(func=np.mean, validate=False), "check_transformer": False}
    if name == "SeriesToSeriesRowTransformer":
        return {"transformer": StandardScaler(), "check_transformer": False}
    if name == "TSInterpolator":
        return {"length": rng.choice([8, 12])}
    if name == "FittedParamExtractor":
        from sktime.forecasting.exp_smoothing import ExponentialSmoothing
        return {"forecaster": ExponentialSmoothing(), "param_names": ["initial_level"]}
    if name == "TabularToSeriesAdaptor":
        return {"transformer": rng.choice([MinMaxScaler(), StandardScaler()])}
    if name == "Imputer" and r < 0.4:
        return {"method": "forecaster", "forecaster": _trend(degree=1)}
    if name == "Detrender" and r < 0.5:
        return {"forecaster": _trend(degree=rng.choice([1, 2]))}
    if name == "OptionalPassthrough":
        from sktime.transformations.series.boxcox import LogTransformer
        return {"transformer": rng.choice([LogTransformer(), Detrender()]), "passthrough": r < 0.3}
    return {}


SMALL = {"n_estimators": [2, 3], "max_ensemble_size": [2, 3], "n_parameter_samples": [4, 5],
         "num_kernels": [20, 40], "time_contract_in_mins": [0.005], "min_interval": [3, 4],
         "max_shapelets_to_store_per_class": [2], "min_shapelet_length": [3], "max_shapelet_length": [4],
         "num_features": [84], "window_length": [3, 5], "sp": [1, 2], "degree": [1, 2], "n_lags": [3, 4],
         "n_sigma": [2, 3], "num_intervals": [2, 4], "word_length": [4], "window_size": [8],
         "n_intervals": [2], "num_levels": [1, 2], "m": [4], "acf_lag": [4], "acf_min_values": [2],
         "random_state": [0, 7], "n_jobs": [None, 1, 2, 2], "time_limit": [0.0005], "alphabet_size": [4], "pad_length": [None]}
CLASS_POOLS = {
    ("NaiveForecaster", "strategy"): ["last", "mean", "drift"],
    ("EnsembleForecaster", "aggfunc"): ["mean", "median", "min", "max"],
    ("Deseasonalizer", "model"): ["additive", "multiplicative"],
    ("ConditionalDeseasonalizer", "model"): ["additive", "multiplicative"],
    ("ExponentialSmoothing", "trend"): [None, "add"],
    ("ThetaForecaster", "deseasonalize"): [True, False],
    ("Imputer", "method"): ["drift", "linear", "mean", "median", "nearest"],
    ("BoxCoxTransformer", "method"): ["mle"],
    ("ForecastingRandomizedSearchCV", "strategy"): ["refit", "update"],
    ("ForecastingGridSearchCV", "strategy"): ["refit", "update"],
    ("ForecastingRandomizedSearchCV", "refit"): [True, False],
    ("ForecastingGridSearchCV", "refit"): [True, False],
    ("ColumnEnsembleClassifier", "remainder"): ["drop", "passthrough"],
    ("PolynomialTrendForecaster", "regressor"): [None, "@linear"],
}
# (constructed / cloned / parameter-checked only: a soft dependency is missing at fit,
# scikit-learn's parameter validation rejects them, or the search takes minutes)
NOT_FITTABLE = {"HCrystalBallForecaster", "TemporalDictionaryEnsemble", "IndividualTDE", "WEASEL",
                "ShapeletTransformClassifier", "ContractedShapeletTransform", "ShapeletTransform",
                "ColumnTransformer"}


def variations(cls, rng):
    """Constructor kwargs drawn per parameter from type-appropriate pools."""
    kw = {}
    sig = inspect.signature(cls.__init__).parameters
    for name, p in sig.items():
        if name == "self" or p.kind in (p.VAR_KEYWORD, p.VAR_POSITIONAL):
            continue
        if (cls.__name__, name) in CLASS_POOLS:
            if rng.random() < 0.7:
                kw[name] = rng.choice(CLASS_POOLS[(cls.__name__, name)])
        elif name in SMALL and (p.default is p.empty or rng.random() < 0.8):
            kw[name] = rng.choice(SMALL[name])
        elif p.default is not p.empty and rng.random() < 0.35:
            d = p.default
            if isinstance(d, bool):
                kw[name] = not d
            elif isinstance(d, int) and d > 1 and name not in ("step_length",):
                kw[name] = d + rng.choice([-1, 1])
            elif isinstance(d, float) and 0 < d < 1:
                kw[name] = round(d * rng.choice([0.5, 0.9]), 4)
    for name in sorted(kw):
        # integers as they come out of numpy arrays / grids (np.int64), not only python ints
        if isinstance(kw[name], int) and not isinstance(kw[name], bool) and rng.random() < 0.3:
            kw[name] = np.int64(kw[name])
        if isinstance(kw[name], str) and kw[name] == "@linear":
            from sklearn.linear_model import LinearRegression
            kw[name] = LinearRegression(fit_intercept=False)   # the user's own regressor object
    return kw


def generate(prop, rng, tier):
    from engines.registry import all_estimator_classes
    classes = all_estimator_classes()
    # (composites have many more configurations worth a scenario than leaf estimators)
    heavy = {"ColumnEnsembleClassifier": 4, "TransformedTargetForecaster": 2, "EnsembleForecaster": 2,
             "StackingForecaster": 2, "MultiplexForecaster": 2, "ForecastingGridSearchCV": 2,
             "ForecastingRandomizedSearchCV": 2, "FeatureUnion": 2, "OnlineEnsembleForecaster": 2,
             "Detrender": 3, "Imputer": 2, "OptionalPassthrough": 2}
    weighted = [c for c in classes for _ in range(heavy.get(c[1].__name__, 1))]
    q, cls, kind = weighted[rng.randrange(len(weighted))]
    ops = []
    n = rng.randint(3, 8)
    pool = ["get_params", "roundtrip_params", "set_flat", "set_unknown", "clone", "call_unfitted",
            "call_unfitted", "fit", "fit", "clone_fitted", "pickle", "set_nested", "replace_component",
            "set_ordered", "update_fitted", "failing_fit", "failing_refit", "failing_refit", "fit"]
    for _ in range(n):
        ops.append(rng.choice(pool))
    return {"class": cls.__name__, "qual": q, "kind": kind, "ctor_seed": rng.randint(0, 10 ** 6),
            "ops": ops, "data_seed": rng.randint(0, 10 ** 6), "origin": rng.choice([0, 0, 10])}


# ------------------------------------------------------------------ helpers
def param_digest(v, _depth=0):
    """Deep, comparable description of a parameter value (incl. fitted state of
    estimator-valued parameters)."""
    from sklearn.base import BaseEstimator as SkBase
    if isinstance(v, SkBase):
        d = {k: param_digest(x) for k, x in sorted(v.get_params(deep=False).items())}
        fitted = sorted(k for k in vars(v) if k.endswith("_") and not k.startswith("__")
                        and vars(v)[k] is not None)
        flag = getattr(v, "_is_fitted", None)
        return ("EST", type(v).__name__, d, fitted, flag)
    if isinstance(v, (list, tuple)):
        return (type(v).__name__, [param_digest(x) for x in v])
    if isinstance(v, dict):
        return ("dict", [(str(k), param_digest(x)) for k, x in sorted(v.items(), key=lambda kv: str(kv[0]))])
    if isinstance(v, np.ndarray):
        return ("arr", v.shape, hashlib.sha256(v.tobytes()).hexdigest()[:12])
    if callable(v):
        return ("fn", getattr(v, "__name__", repr(v)))
    if hasattr(v, "__dict__") and not isinstance(v, type) and _depth < 4:
        # any other object handed to a constructor (a weighting algorithm, a splitter, ...): by
        # what it holds, so that a change inside it is a change of the parameter
        return ("obj", type(v).__name__, [(k, param_digest(x, _depth + 1))
                                          for k, x in sorted(vars(v).items())])
    try:
        if isinstance(v, float) and np.isnan(v):
            return ("nan",)
    except Exception:
        pass
    return ("val", repr(v))


def make_data(kind, cls_name, seed, origin):
    if kind == "forecaster":
        y = C.make_series(seed, 34, origin, "range", sp=4)
        return {"y": y.iloc[:26], "y_new": y.iloc[26:32], "fh": [1, 2]}
    if kind in ("series-transformer", "series-to-primitives"):
        y = C.make_series(seed, 34, origin, "range", sp=4)
        return {"z": y.iloc[:26], "z_new": y.iloc[26:32]}
    from engines.purity import make_panel
    cols = 2 if cls_name in ("MUSE",) else 1
    X, yc, yr = make_panel(seed, 10, cols, 24, "nested_series", "range")
    return {"X": X, "y": yr if kind == "regressor" else yc}


def do_fit(est, kind, data):
    if kind == "forecaster":
        return est.fit(data["y"], fh=data["fh"])
    if kind in ("series-transformer", "series-to-primitives"):
        return est.fit(data["z"])
    return est.fit(data["X"], data["y"])


def call_method(est, kind, m, data, minimal=False):
    if kind == "forecaster" and minimal:
        # the same calls with as few arguments as the signature allows
        if m == "predict":
            return est.predict()
        if m == "update_predict_single":
            return est.update_predict_single(data["y_new"])
        if m == "score":
            return est.score(data["y_new"].iloc[:2])
        if m == "update":
            return est.update(data["y_new"].iloc[:0], update_params=False)   # nothing new
        if m == "update_predict":
            return est.update_predict(data["y_new"], update_params=False)
    if kind == "forecaster":
        if m == "predict":
            return est.predict(data["fh"])
        if m == "update":
            return est.update(data["y_new"])
        if m == "update_predict":
            return est.update_predict(data["y_new"])
        if m == "update_predict_single":
            return est.update_predict_single(data["y_new"], fh=data["fh"])
        if m == "score":
            return est.score(data["y_new"].iloc[:2], fh=data["fh"])
        if m in ("transform", "inverse_transform"):
            return getattr(est, m)(data["y"])
    elif kind in ("series-transformer", "series-to-primitives"):
        if m == "update":
            return est.update(data["z_new"])
        return getattr(est, m)(data["z"])
    else:
        if m == "score":
            return est.score(data["X"], data["y"])
        return getattr(est, m)(data["X"])
    raise AttributeError(m)


def composite_attr(est):
    for attr in ("forecasters", "steps", "estimators", "transformer_list", "transformers"):
        v = getattr(est, attr, None)
        if isinstance(v, list) and v and isinstance(v[0], tuple) and isinstance(v[0][0], str):
            return attr
    return None


# ------------------------------------------------------------------ execution
def execute(prop, scen):
    import random
    from sklearn.base import clone
    from sktime.exceptions import NotFittedError
    from engines.registry import all_estimator_classes
    res = RunResult()
    peers.reset()
    C.reset_caches()
    cls = None
    for q, c, k in all_estimator_classes():
        if q == scen["qual"]:
            cls = c
    if cls is None:
        res.digest = "class_not_importable"
        return res
    name, kind = scen["class"], scen["kind"]
    res.real.add(scen["qual"].replace("sktime.", ""))
    digest = hashlib.sha256()
    rng = random.Random(scen["ctor_seed"])

    def v(c_, detail, **sig):
        sig.setdefault("estimator", name)
        res.violate("C04." + c_, detail, **sig)

    # ---- construct
    try:
        req = required_args(name, rng)
        kw = dict(variations(cls, rng))
        kw.update(req)
        if kw and set(kw) - set(req):
            res.probe("constructor_args_varied")
        try:
            est = cls(**kw)
        except (ValueError, TypeError) as e:
            # a rejected variation is not a protocol matter: fall back to required args only
            kw = dict(req)
            est = cls(**kw)
    except Exception as e:  # noqa
        res.digest = "ctor:" + type(e).__name__
        res.probes["not_constructible"] = 1
        return res
    # a second instance built from equal (but separate) arguments: whatever is done to `est`
    # must leave it alone, and an instance built later must come out the same
    def _separate_instance():
        r2 = random.Random(scen["ctor_seed"])
        req2 = required_args(name, r2)
        kw2 = dict(variations(cls, r2))
        kw2.update(req2)
        return cls(**{k_: x for k_, x in kw2.items() if k_ in kw})
    bystander, by0 = None, None
    try:
        with peers.paused():
            bystander = _separate_instance()
            by0 = {k_: param_digest(x) for k_, x in bystander.get_params(deep=False).items()}
    except Exception:
        bystander = None
    expected = {}
    sigp = inspect.signature(cls.__init__).parameters
    for pname, p in sigp.items():
        if pname == "self" or p.kind in (p.VAR_KEYWORD, p.VAR_POSITIONAL):
            continue
        expected[pname] = kw[pname] if pname in kw else p.default
    data = make_data(kind, name, scen["data_seed"], scen["origin"])
    fitted = False
    comp = composite_attr(est)
    if comp:
        parts = getattr(est, comp)
        if any(composite_attr(p[1]) for p in parts if hasattr(p[1], "get_params")):
            res.probe("composite_depth2")

    def check_params(where):
        try:
            got = est.get_params(deep=False)
        except Exception as e:  # noqa
            v("get_params_raised", "%s: get_params raised %s: %s" % (where, type(e).__name__, str(e)[:120]))
            return False
        if set(got) != set(expected):
            v("param_names", "%s: get_params(deep=False) keys %s differ from the constructor's %s" % (
                where, sorted(set(got) ^ set(expected)), sorted(expected)), where=where)
            return False
        for k_, exp in expected.items():
            g = got[k_]
            same = g is exp or param_digest(g) == param_digest(exp)
            if not same:
                v("param_not_as_passed", "%s: parameter %r is %s, constructed/set with %s" % (
                    where, k_, repr(g)[:80], repr(exp)[:80]), param=k_,
                    where="after_fit" if "fit" in where else "before_fit")
                return False
        return True

    if not check_params("after construction"):
        res.digest = "params"
        return res
    if name == "ColumnEnsembleClassifier":
        deep = est.get_params(deep=True)
        for part in kw["estimators"]:
            if part[0] not in deep:
                v("component_name_missing", "get_params(deep=True) lacks component %r (%s)" % (
                    part[0], "dropped" if part[1] == "drop" else "estimator"),
                  dropped=part[1] == "drop")
                break
        if not res.violations:
            target = [p_ for p_ in kw["estimators"] if p_[1] != "drop"][0]
            repl = clone(target[1])
            try:
                est.set_params(**{target[0]: repl})
                cur = {p_[0]: (p_[1], p_[2]) for p_ in est.estimators}
                if cur[target[0]][0] is not repl or cur[target[0]][1] != target[2] or \
                        [p_[0] for p_ in est.estimators] != [p_[0] for p_ in kw["estimators"]]:
                    v("component_not_replaced", "ColumnEnsembleClassifier.set_params(%s=<estimator>) "
                      "did not replace exactly that component (components now: %s)" % (
                          target[0], [(p_[0], p_[2]) for p_ in est.estimators]))
                expected["estimators"] = est.estimators
                res.probe("component_replaced")
            except Exception as e:  # noqa
                v("replace_component_raised", "set_params(%s=<estimator>) raised %s: %s" % (
                    target[0], type(e).__name__, str(e)[:100]))
    if getattr(est, "is_fitted", False):
        v("fresh_is_fitted", "a freshly constructed estimator reports is_fitted True")
    sc = sched.Scheduler("fifo", 0)
    with sched.scenario_schedule(sc):
        for i, op in enumerate(scen["ops"]):
            if res.violations:
                break
            res.ops += 1
            digest.update(op.encode())
            if op == "get_params":
                check_params("op %d" % i)
                try:
                    deep = est.get_params(deep=True)
                    for k_ in expected:
                        if k_ not in deep:
                            v("param_names", "get_params(deep=True) lacks %r" % k_, where="deep")
                    # every parameter of every named component, at any depth, is listed as
                    # <component>__<param> and reads the component's own value
                    if comp and not res.violations:
                        for part in getattr(est, comp):
                            pname, pobj = part[0], part[1]
                            if not hasattr(pobj, "get_params"):
                                continue
                            if pname in deep and deep[pname] is not pobj:
                                v("nested_param_wrong_value", "get_params()[%r] is not the component "
                                  "object that was passed (fitted: %s)" % (pname, fitted),
                                  depth=0, identity=True)
                                break
                            for sub, val in pobj.get_params(deep=True).items():
                                key = "%s__%s" % (pname, sub)
                                if key not in deep:
                                    v("nested_param_missing", "get_params(deep=True) lacks %r (a "
                                      "parameter of component %r)" % (key, pname),
                                      depth=key.count("__"))
                                    break
                                if deep[key] is not val and param_digest(deep[key]) != param_digest(val):
                                    v("nested_param_wrong_value", "get_params()[%r] is not the "
                                      "component's value" % key)
                                    break
                            if res.violations:
                                break
                        res.probe("deep_names_checked")
                except Exception as e:  # noqa
                    v("get_params_raised", "get_params(deep=True) raised %s: %s" % (
                        type(e).__name__, str(e)[:120]))
            elif op == "roundtrip_params":
                try:
                    est.set_params(**est.get_params(deep=False))
                except Exception as e:  # noqa
                    v("set_params_roundtrip_raised", "set_params(**get_params()) raised %s: %s" % (
                        type(e).__name__, str(e)[:120]))
                    break
                check_params("after set_params(**get_params())")
                res.nontrivial = True
            elif op == "set_flat":
                cands = [k_ for k_, x in expected.items() if isinstance(x, (bool, int, float, str))
                         and not isinstance(x, bool) or isinstance(x, bool)]
                cands = [k_ for k_ in cands if k_ in SMALL or isinstance(expected[k_], bool)]
                if not cands or fitted:
                    continue
                k_ = cands[rng.randrange(len(cands))]
                new = (not expected[k_]) if isinstance(expected[k_], bool) else rng.choice(SMALL[k_])
                try:
                    out = est.set_params(**{k_: new})
                except Exception as e:  # noqa
                    v("set_params_raised", "set_params(%s=%r) raised %s: %s" % (
                        k_, new, type(e).__name__, str(e)[:120]), param=k_)
                    break
                if out is not est:
                    v("set_params_not_self", "set_params did not return the estimator")
                expected[k_] = new
                res.fault("set_params_midway")
                check_params("after set_params(%s)" % k_)
                res.nontrivial = True
            elif op == "set_unknown":
                try:
                    est.set_params(no_such_parameter_xyz=1)
                    v("unknown_param_accepted", "set_params(no_such_parameter_xyz=1) was accepted")
                except ValueError:
                    res.probe("unknown_param_rejected")
                except Exception as e:  # noqa
                    v("unknown_param_wrong_error", "unknown parameter raised %s instead of ValueError"
                      % type(e).__name__, exc=type(e).__name__)
                if comp:
                    named = [p_ for p_ in getattr(est, comp) if hasattr(p_[1], "get_params")]
                    pname = (named or getattr(est, comp))[0][0]
                    try:
                        est.set_params(**{"%s__no_such_parameter_xyz" % pname: 1})
                        v("unknown_param_accepted", "set_params(%s__no_such_parameter_xyz=1) was accepted"
                          % pname, nested=True)
                    except ValueError:
                        pass
                    except Exception as e:  # noqa
                        v("unknown_param_wrong_error", "unknown nested parameter raised %s instead of "
                          "ValueError" % type(e).__name__, exc=type(e).__name__, nested=True)
            elif op == "set_nested" and not comp and not fitted:
                # estimator-valued parameters (Detrender(forecaster=), tuner(forecaster=),
                # reductions(estimator=), adaptors, ...): <param>__<sub> reads and writes the
                # sub-estimator's parameter
                cands = [(k_, x) for k_, x in est.get_params(deep=False).items()
                         if hasattr(x, "get_params") and not isinstance(x, type)]
                if not cands:
                    continue
                k_, sub = cands[rng.randrange(len(cands))]
                try:
                    subp = {a_: b_ for a_, b_ in sub.get_params(deep=False).items() if a_ in SMALL
                            and not isinstance(b_, bool)}
                except Exception:
                    continue
                deep = est.get_params(deep=True)
                for a_ in sub.get_params(deep=False):
                    if "%s__%s" % (k_, a_) not in deep:
                        v("nested_param_missing", "get_params(deep=True) lacks %s__%s" % (k_, a_), depth=1)
                        break
                if res.violations or not subp:
                    continue
                a_ = sorted(subp)[rng.randrange(len(subp))]
                new = rng.choice(SMALL[a_])
                try:
                    est.set_params(**{"%s__%s" % (k_, a_): new})
                except Exception as e:  # noqa
                    v("nested_set_raised", "set_params(%s__%s=%r) raised %s: %s" % (
                        k_, a_, new, type(e).__name__, str(e)[:100]))
                    break
                res.probe("nested_param_set")
                if getattr(getattr(est, k_), a_) != new or est.get_params()["%s__%s" % (k_, a_)] != new:
                    v("nested_param_not_written", "after set_params(%s__%s=%r) the sub-estimator holds %r"
                      % (k_, a_, new, getattr(getattr(est, k_), a_)))
                res.nontrivial = True
            elif op in ("set_nested", "replace_component", "set_ordered"):
                if not comp or fitted or comp in ("estimators", "transformers"):
                    continue
                parts = getattr(est, comp)
                idx = rng.randrange(len(parts))
                pname, pobj = parts[idx][0], parts[idx][1]
                if not hasattr(pobj, "get_params"):
                    continue
                inner = {k_: x for k_, x in pobj.get_params(deep=False).items()
                         if k_ in SMALL and not isinstance(x, bool)}
                if op == "set_nested":
                    if not inner:
                        continue
                    k_ = sorted(inner)[rng.randrange(len(inner))]
                    new = rng.choice(SMALL[k_])
                    try:
                        est.set_params(**{"%s__%s" % (pname, k_): new})
                    except Exception as e:  # noqa
                        v("nested_set_raised", "set_params(%s__%s=%r) raised %s: %s" % (
                            pname, k_, new, type(e).__name__, str(e)[:100]))
                        break
                    res.probe("nested_param_set")
                    got = est.get_params(deep=True).get("%s__%s" % (pname, k_), "<missing>")
                    cur = dict((p[0], p[1]) for p in getattr(est, comp))[pname]
                    if got != new or getattr(cur, k_) != new:
                        v("nested_param_not_written", "after set_params(%s__%s=%r) get_params gives %r "
                          "and the component holds %r" % (pname, k_, new, got, getattr(cur, k_)))
                    res.nontrivial = True
                elif op == "replace_component":
                    new_obj = clone(pobj)
                    callers_list = getattr(est, comp)          # the list object the user passed
                    callers_items = list(callers_list)
                    names_before = [p_[0] for p_ in callers_items]
                    try:
                        est.set_params(**{pname: new_obj})
                    except Exception as e:  # noqa
                        v("replace_component_raised", "set_params(%s=<estimator>) raised %s: %s" % (
                            pname, type(e).__name__, str(e)[:100]))
                        break
                    cur = dict((p[0], p[1]) for p in getattr(est, comp))
                    res.probe("component_replaced")
                    if cur.get(pname) is not new_obj:
                        v("component_not_replaced", "set_params(%s=<estimator>) did not replace the "
                          "component" % pname)
                    if [p_[0] for p_ in getattr(est, comp)] != names_before:
                        v("component_order_changed", "set_params(%s=<estimator>) changed the order of "
                          "the components: %s -> %s" % (pname, names_before,
                                                        [p_[0] for p_ in getattr(est, comp)]))
                    if len(callers_list) != len(callers_items) or any(
                            a is not b for a, b in zip(callers_list, callers_items)):
                        v("callers_list_mutated", "set_params(%s=<estimator>) edited the list object "
                          "that was passed to the constructor in place (other estimators sharing it "
                          "change with it)" % pname)
                    expected[comp] = getattr(est, comp)
                    res.nontrivial = True
                else:
                    # documented order: whole list, component replacement, component parameter
                    if not inner:
                        continue
                    k_ = sorted(inner)[rng.randrange(len(inner))]
                    new = rng.choice(SMALL[k_])
                    new_list = [(p[0], clone(p[1])) + tuple(p[2:]) for p in parts]
                    if rng.random() < 0.5:
                        # the new list renames the component; the replacement and the nested
                        # parameter refer to the NEW name (the list is documented to be set first)
                        newname = pname + "new"
                        new_list[idx] = (newname,) + tuple(new_list[idx][1:])
                        pname = newname
                    new_obj = clone(pobj)
                    try:
                        est.set_params(**{"%s__%s" % (pname, k_): new, pname: new_obj, comp: new_list})
                    except Exception as e:  # noqa
                        v("ordered_set_raised", "combined set_params raised %s: %s" % (
                            type(e).__name__, str(e)[:100]))
                        break
                    cur = dict((p[0], p[1]) for p in getattr(est, comp))
                    res.probe("ordered_set_params")
                    if cur.get(pname) is not new_obj or getattr(new_obj, k_) != new:
                        v("set_params_order", "list, component and component parameter given together: "
                          "the component is %s the new one and its %s is %r (expected %r)" % (
                              "" if cur.get(pname) is new_obj else "not", k_, getattr(cur.get(pname), k_, None), new))
                    expected[comp] = getattr(est, comp)
                    res.nontrivial = True
            elif op == "clone":
                try:
                    c2 = clone(est)
                except Exception as e:  # noqa
                    v("clone_raised", "clone raised %s: %s" % (type(e).__name__, str(e)[:160]),
                      fitted=fitted)
                    break
                res.fault("clone_midway")
                a_, b_ = c2.get_params(deep=False), est.get_params(deep=False)
                if set(a_) != set(b_) or any(_clean(param_digest(a_[k_])) != _clean(param_digest(b_[k_]))
                                             for k_ in a_):
                    v("clone_params_differ", "clone has different parameters")
                if getattr(c2, "is_fitted", False):
                    v("clone_is_fitted", "a clone reports is_fitted True", fitted=fitted)
                res.nontrivial = True
            elif op == "pickle":
                try:
                    with peers.paused():
                        est2 = pickle.loads(pickle.dumps(est))
                except Exception as e:  # noqa
                    v("pickle_raised", "pickle round trip raised %s: %s" % (type(e).__name__, str(e)[:120]),
                      fitted=fitted)
                    break
                res.fault("pickle_roundtrip")
                if not fitted:
                    res.probe("pickle_unfitted")
                if bool(getattr(est2, "is_fitted", False)) != bool(getattr(est, "is_fitted", False)):
                    v("pickle_changes_fitted", "is_fitted changes across pickling")
            elif op == "call_unfitted":
                target = est
                if fitted:
                    try:
                        target = clone(est)
                    except Exception:
                        continue
                    res.probe("clone_of_fitted")
                check_not_fitted(v, res, target, kind, data, NotFittedError, cloned=fitted)
            elif op == "clone_fitted":
                if not fitted:
                    continue
                try:
                    c2 = clone(est)
                except Exception as e:  # noqa
                    v("clone_raised", "clone of a fitted estimator raised %s: %s" % (
                        type(e).__name__, str(e)[:160]), fitted=True)
                    break
                res.probe("clone_of_fitted")
                if getattr(c2, "is_fitted", False):
                    v("clone_is_fitted", "a clone of a fitted estimator reports is_fitted True", fitted=True)
                # a method the fitted estimator offers is also there before fit (where it raises
                # NotFittedError): one that only appears with fit fails with AttributeError, an
                # unrelated error, on the unfitted clone
                for m_ in APPLY_METHODS:
                    try:
                        has_f, has_c = hasattr(est, m_), hasattr(c2, m_)
                    except Exception:
                        continue
                    if has_f and not has_c:
                        v("unfitted_wrong_error", "%s exists on the fitted estimator but not on its "
                          "unfitted clone: calling it before fit raises AttributeError instead of "
                          "NotFittedError" % m_, method=m_, exc="AttributeError", cloned=True)
                        break
                if res.violations:
                    break
                check_not_fitted(v, res, c2, kind, data, NotFittedError, cloned=True)
            elif op == "update_fitted":
                # apply-type / update calls on the fitted object never touch constructor parameters
                if not fitted or kind not in ("forecaster", "series-transformer"):
                    continue
                before = {k_: param_digest(x) for k_, x in est.get_params(deep=False).items()}
                # (update where there is one; transform / predict in any case)
                called = 0
                for m_ in ("update", "transform", "predict"):
                    if hasattr(est, m_) and (m_ != "transform" or kind == "series-transformer"):
                        try:
                            if m_ == "transform" and name == "Imputer":
                                zz_ = data["z"].copy()
                                zz_.iloc[3] = np.nan     # something to impute
                                est.transform(zz_)
                            else:
                                call_method(est, kind, m_, data)
                            called += 1
                        except Exception:
                            pass
                if not called:
                    continue
                res.probe("params_after_update_checked")
                after = est.get_params(deep=False)
                for k_ in before:
                    if k_ not in after or param_digest(after[k_]) != before[k_]:
                        v("param_changed_by_update", "constructor parameter %r changed during update / apply calls: "
                          "%s -> %s" % (k_, _brief(before[k_]), _brief(param_digest(after.get(k_)))),
                          param=k_)
                        break
            elif op == "failing_fit":
                # a fit that cannot succeed (series far too short) must raise and must not leave
                # the estimator claiming to be fitted
                if kind != "forecaster" or fitted or name in NOT_FITTABLE:
                    continue
                try:
                    est.fit(data["y"].iloc[:2], fh=data["fh"])
                except Exception:
                    res.probe("failed_fit_checked")
                    if getattr(est, "is_fitted", False):
                        v("fitted_flag_after_failed_fit", "fit raised but is_fitted is True")
                        break
                    check_not_fitted(v, res, est, kind, data, NotFittedError, cloned=False)
                else:
                    fitted = True   # (it could be fitted on two points after all)
            elif op == "failing_refit":
                # a fitted forecaster whose next (re)fit raises - directly, through update, or
                # inside update_predict's moving-cutoff loop (a NaN the regressor rejects): the
                # fit that raised must not leave the forecaster claiming to be fitted
                if kind == "series-transformer" and fitted and name not in NOT_FITTABLE:
                    # the transformer analogue: a second fit on a series with a missing value,
                    # or on one that is far too short
                    badz = data["z"].copy()
                    if rng.random() < 0.5:
                        badz.iloc[len(badz) // 2] = np.nan
                    else:
                        badz = badz.iloc[:2]
                    try:
                        est.transform(data["z"])
                    except Exception:
                        continue
                    try:
                        est.fit(badz)
                    except Exception:
                        res.probe("failed_refit_checked")
                        if getattr(est, "is_fitted", False):
                            try:
                                est.transform(data["z"])
                            except NotFittedError:
                                v("fitted_flag_after_failed_fit", "after a fit that raised on an "
                                  "already fitted transformer is_fitted is True but transform raises "
                                  "NotFittedError", how="fit", refit=True)
                                break
                            except Exception:
                                pass
                        else:
                            check_not_fitted(v, res, est, kind, data, NotFittedError, cloned=False)
                    # continue on a cleanly fitted object
                    try:
                        est.fit(data["z"])
                        fitted = True
                    except Exception:
                        break
                    continue
                if kind != "forecaster" or not fitted or name in NOT_FITTABLE:
                    continue
                how = rng.choice(["fit", "update", "update_predict"])
                bad = data["y_new"].copy()
                bad.iloc[len(bad) // 2] = np.nan
                try:   # (a tuner with refit=False never answers predict: nothing to compare)
                    pred_before = est.predict(data["fh"])
                except Exception:
                    continue
                # (observe the forecaster's own fit: only a call in which *that* raised is judged)
                seen = {"raised": False, "calls": 0}
                orig_fit = est.fit

                def watched_fit(*a, _o=orig_fit, **k):
                    seen["calls"] += 1
                    seen["raised"] = True
                    out = _o(*a, **k)
                    seen["raised"] = False
                    return out
                est.fit = watched_fit
                raised = False
                try:
                    if how == "fit":
                        if rng.random() < 0.5:
                            est.fit(data["y"].iloc[:2], fh=data["fh"])
                        else:   # rejected at validation: a series that is not ordered in time
                            est.fit(data["y"].iloc[::-1], fh=data["fh"])
                    elif how == "update":
                        est.update(bad, update_params=True)
                    else:
                        est.update_predict(bad, update_params=True)
                except Exception:
                    raised = True
                finally:
                    del est.fit
                if raised and seen["raised"]:
                    # The property does not say whether a failed re-fit keeps the previous
                    # fitted state or discards it; it does tie the flag to the behaviour: an
                    # estimator that reports is_fitted answers, one that does not raises
                    # NotFittedError.
                    res.probe("failed_refit_checked")
                    if getattr(est, "is_fitted", False):
                        pred_after = None
                        try:
                            pred_after = est.predict(data["fh"])
                        except NotFittedError:
                            v("fitted_flag_after_failed_fit", "after a fit that raised (reached via %s "
                              "on an already fitted object) is_fitted is True but predict raises "
                              "NotFittedError" % how, how=how, refit=True)
                            break
                        except Exception:
                            pass
                        if how == "fit" and pred_after is not None and isinstance(pred_before, pd.Series) \
                                and isinstance(pred_after, pd.Series) and not C.same_series(pred_before, pred_after):
                            # fit(bad) raised and the forecaster keeps claiming to be fitted: then on
                            # the data of its last successful fit, not on a mixture
                            v("fitted_flag_after_failed_fit", "a direct re-fit raised, is_fitted stays "
                              "True, but predict changed from %s to %s: part of the failed fit was kept"
                              % (C.fmt(pred_before), C.fmt(pred_after)), how=how, refit=True, mixed=True)
                            break
                        try:   # continue on a cleanly fitted object
                            est.fit(data["y"], fh=data["fh"])
                        except Exception:
                            break
                    else:
                        check_not_fitted(v, res, est, kind, data, NotFittedError, cloned=False)
                        fitted = False
                elif raised:
                    # the call failed elsewhere: whatever state it left is not judged here, and
                    # the rest of the history continues on a freshly fitted object
                    try:
                        est.fit(data["y"], fh=data["fh"])
                    except Exception:
                        break
            elif op == "fit":
                if name in NOT_FITTABLE:
                    continue
                before = {k_: param_digest(x) for k_, x in est.get_params(deep=False).items()}
                ids = {k_: id(x) for k_, x in est.get_params(deep=False).items()}
                if fitted and kind == "forecaster":
                    # fitting the same object again: without a horizon where the forecaster takes
                    # it at predict, with another horizon where it needs one at fit
                    try:
                        needs = False
                        try:
                            from sktime.forecasting.base._sktime import _RequiredForecastingHorizonMixin
                            needs = isinstance(est, _RequiredForecastingHorizonMixin) or name in (
                                "StackingForecaster",)
                        except Exception:
                            pass
                        out = est.fit(data["y"], fh=[1, 2, 3]) if needs else est.fit(data["y"])
                        res.probe("second_fit_checked")
                        if out is not est or not getattr(est, "is_fitted", False):
                            v("refit_protocol", "second fit did not return self / set is_fitted")
                    except Exception as e:  # noqa
                        if isinstance(e, ValueError) and "must be passed" in str(e) and not needs:
                            v("refit_raised", "fitting an already fitted %s again (no horizon) raised "
                              "%s: %s" % (name, type(e).__name__, str(e)[:100]), exc=type(e).__name__)
                            break
                        if needs and isinstance(e, ValueError) and "different forecasting horizon" in str(e):
                            v("refit_raised", "fitting an already fitted %s again with another horizon "
                              "raised %s" % (name, str(e)[:100]), exc=type(e).__name__)
                            break
                    continue
                try:
                    out = do_fit(est, kind, data)
                except Exception as e:  # noqa
                    # a configuration that cannot be fitted on this data is not a protocol matter
                    res.probes["fit_not_possible"] = res.probes.get("fit_not_possible", 0) + 1
                    digest.update(b"fitraised")
                    break
                fitted = True
                res.nontrivial = True
                if out is not est:
                    v("fit_not_self", "fit returned %s, not the estimator itself" % type(out).__name__)
                if not getattr(est, "is_fitted", False):
                    v("fit_not_flagged", "is_fitted is False after fit")
                try:
                    fresh_ = clone(est)
                    for m_ in APPLY_METHODS:
                        if hasattr(est, m_) and not hasattr(fresh_, m_):
                            v("unfitted_wrong_error", "%s exists on the fitted estimator but not on "
                              "an unfitted clone: calling it before fit raises AttributeError "
                              "instead of NotFittedError" % m_, method=m_, exc="AttributeError",
                              cloned=True)
                            break
                except Exception:
                    pass
                res.probe("fit_leaves_params_checked")
                after = est.get_params(deep=False)
                for k_ in before:
                    if k_ not in after:
                        v("param_changed_by_fit", "parameter %r disappeared during fit" % k_, param=k_)
                        break
                    if param_digest(after[k_]) != before[k_] or id(after[k_]) != ids[k_] and \
                            not isinstance(after[k_], (int, float, str, bool, type(None))):
                        v("param_changed_by_fit", "constructor parameter %r changed during fit: %s -> %s"
                          % (k_, _brief(before[k_]), _brief(param_digest(after[k_]))), param=k_)
                        break
            res.states.add(short_hash([name, op, fitted]))
    res.digest = digest.hexdigest()[:16]
    if bystander is not None and not res.violations:
        res.probe("separate_instance_checked")
        try:
            with peers.paused():
                now_ = {k_: param_digest(x) for k_, x in bystander.get_params(deep=False).items()}
                late_ = {k_: param_digest(x) for k_, x in _separate_instance().get_params(deep=False).items()}
        except Exception:
            now_ = late_ = by0
        for what, d_ in (("another instance, built before from separate arguments,", now_),
                         ("an instance built afterwards from the same arguments", late_)):
            bad = [k_ for k_ in by0 if d_.get(k_) != by0[k_]]
            if bad:
                v("instances_share_state", "after the operations on one %s, %s reports parameter %r as %s "
                  "(it was %s): the instances share a parameter object" % (
                      name, what, bad[0], _brief(d_.get(bad[0])), _brief(by0[bad[0]])), param=bad[0])
                break
    # constructor arguments taken through **kwargs are constructor arguments too
    EXTRA_KW = {"PCATransformer": {"whiten": True}}
    if not res.violations and name in EXTRA_KW and any(p_.kind == p_.VAR_KEYWORD for p_ in sigp.values()):
        try:
            e2 = cls(**dict(kw, **EXTRA_KW[name]))
            res.probe("keyword_arguments_checked")
            lost = [k_ for k_ in EXTRA_KW[name] if k_ not in e2.get_params(deep=False)]
            if lost:
                v("param_names", "%s(**kwargs): the argument(s) %s are not reported by get_params(), so "
                  "clone() and set_params(**get_params()) silently drop them" % (name, lost),
                  where="kwargs")
        except Exception as e:  # noqa
            digest.update(("kwargs:%s" % type(e).__name__).encode())
    return res


def _clean(d):
    """Digest without fitted-state information (clone drops it)."""
    if isinstance(d, tuple) and d and d[0] == "EST":
        return ("EST", d[1], {k: _clean(x) for k, x in d[2].items()})
    if isinstance(d, tuple) and len(d) == 2 and isinstance(d[1], list):
        return (d[0], [_clean(x) for x in d[1]])
    return d


def _brief(d):
    s = repr(d)
    return s if len(s) < 90 else s[:87] + "..."


MINIMAL_VARIANTS = ("predict", "update_predict_single", "score", "update", "update_predict")


def check_not_fitted(v, res, est, kind, data, NotFittedError, cloned):
    res.probe("not_fitted_calls_checked")
    if getattr(est, "is_fitted", False):
        v("unfitted_is_fitted", "an unfitted estimator reports is_fitted True", cloned=cloned)
        return
    for m in APPLY_METHODS:
        try:
            has = hasattr(est, m)
        except Exception:
            has = False
        if not has:
            continue
        if kind not in ("forecaster",) and m in ("update_predict", "update_predict_single"):
            continue
        if m == "score" and kind not in ("forecaster", "classifier", "regressor"):
            continue
        try:
            call_method(est, kind, m, data)
            if kind == "forecaster" and m in MINIMAL_VARIANTS:
                call_method(est, kind, m, data, minimal=True)
        except NotFittedError:
            if kind == "forecaster" and m in MINIMAL_VARIANTS:
                try:
                    call_method(est, kind, m, data, minimal=True)
                except NotFittedError:
                    continue
                except Exception as e:  # noqa
                    v("unfitted_wrong_error", "%s (called with the fewest / emptiest arguments) before fit raised %s (%s) "
                      "instead of NotFittedError" % (m, type(e).__name__, str(e)[:80]), method=m,
                      exc=type(e).__name__, cloned=cloned, minimal=True)
                    return
                v("unfitted_returned_result", "%s (called with the fewest / emptiest arguments) before fit returned a "
                  "result" % m, method=m, cloned=cloned, minimal=True)
                return
            continue
        except AttributeError as e:
            if "has no attribute '%s'" % m in str(e) or str(e) == m:
                continue
            v("unfitted_wrong_error", "%s before fit raised AttributeError (%s) instead of "
              "NotFittedError" % (m, str(e)[:80]), method=m, exc="AttributeError", cloned=cloned)
            return
        except Exception as e:  # noqa
            v("unfitted_wrong_error", "%s before fit raised %s (%s) instead of NotFittedError" % (
                m, type(e).__name__, str(e)[:80]), method=m, exc=type(e).__name__, cloned=cloned)
            return
        v("unfitted_returned_result", "%s before fit returned a result instead of raising "
          "NotFittedError" % m, method=m, cloned=cloned)
        return


def shrink_candidates(prop, scen):
    s = json.loads(json.dumps(scen))
    if len(s["ops"]) > 1:
        for cand in ddmin_list(s["ops"]):
            if cand:
                yield dict(s, ops=cand)
    if s["origin"]:
        yield dict(s, origin=0)
