# -*- coding: utf-8 -*-
"""C19 - benchmark runs are exactly-once, resumable and store what was
actually predicted (DESIGN.md section 7, C19).

Real code: Orchestrator, HDDResults, RAMResults, BaseResults registry,
TSC/TSRStrategy, TSC/TSRTask, RAMDataset, UEADataset, PresplitFilesCV,
SingleSplit, sklearn KFold, joblib dump/load, to_csv/read_csv on a real
scratch directory.  Stubs: SpyClassifier/SpyRegressor as benchmark
estimators, SimClock behind orchestration's `pd.Timestamp.now`.
"""
import hashlib
import json
import os
import shutil
import tempfile

import numpy as np
import pandas as pd

from simkit import peers
from simkit.clock import SimClock, patched_orchestration_clock
from simkit.core import RunResult, ddmin_list, short_hash

LEVEL = {"C19": "fault_enumeration"}
TIERS = {"C19": (160, 170, 2400, 1200)}
PROBES = {"C19": ["second_crash_during_resume", "crash_between_train_and_test_prediction", "crash_at_fit",
                  "resume_with_partial_unit", "resume_all_complete",
                  "overwrite_run", "rerun_same_process", "presplit_cv",
                  "clock_backwards_seen", "kill_not_exception",
                  "options_changed_between_runs", "ram_store", "features_reordered", "benchmark_extended_later",
                  "target_column_not_last", "strategy_reconfigured_between_runs", "strategy_reconfigured_in_live_process", "label_aware_cv", "tuning_meta_estimator",
                  "presplit_labels_interleaved"]}
FAULT_KINDS = {"C19": ["peer_raises@k", "crash_restart", "rerun_same_process",
                       "clock_jump_fwd", "clock_jump_back"]}
RULE = {"C19": (
    "seeded sampling of configurations (datasets x strategies x CV scheme x "
    "store x option history); inside each sampled on-disk configuration every "
    "crash point k=1..N of the first run is enumerated, each followed by a "
    "resume and the rest of the history.  One evaluation = one scenario (all "
    "its crash/resume histories); non-trivial = at least one injected failure "
    "actually fired inside fit_predict and a later run resumed over the "
    "partial store; distinct = distinct canonical scenario JSON.")}
ASSUMPTIONS = {"C19": [
    "fault model = the property's own: a strategy's fit or predict raises; "
    "torn writes / ENOSPC / power loss of unsynced files are not injected",
    "benchmark estimators are deterministic spies whose prediction is an "
    "injective function of (tag, training instances, feature columns, instance)",
    "CV schemes use integer random_state, so folds are a function of the data"]}

PARTS = ("train", "test")


# ------------------------------------------------------------------ generation
def generate(prop, rng, tier):
    big = tier == "thorough"
    kind = rng.choice(["tsc", "tsc", "tsr"])
    store = "hdd" if rng.random() < 0.85 else "ram"
    n_ds = rng.choice([1, 1, 2, 2, 3] if big else [1, 1, 2])
    cvt = rng.choice(["kfold", "kfold", "single", "presplit", "presplit_inner", "stratified"])
    if kind == "tsr" and (cvt.startswith("presplit") or cvt == "stratified"):
        cvt = "kfold"
    datasets = []
    # (listed in an arbitrary, not necessarily alphabetical, order)
    ds_names = rng.sample(["alpha", "mid", "zeta", "ds0", "ds10", "ds9"], n_ds)
    for d in range(n_ds):
        n = rng.randint(6, 14 if big else 10)
        datasets.append({
            "name": ds_names[d], "n": n, "cols": rng.choice([1, 1, 2, 3]),
            "len": rng.randint(3, 6),
            "source": rng.choice(["uea", "uea", "ram_presplit"]) if cvt.startswith("presplit") else rng.choice(["ram", "ram", "uea"]) if kind == "tsc" else "ram",
            "n_train": rng.randint(2, n - 2),
            "target_pos": rng.choice(["last", "last", "first", "middle"]),
            "row_labels": rng.choice([0, 0, 100, 7]),
            "target_kind": rng.choice(["float", "float", "small", "int"]),
            "classes": rng.choice([2, 3])})
    if n_ds >= 2 and rng.random() < 0.5:
        for ds in datasets[1:]:
            ds["n"] = datasets[0]["n"]   # datasets of equal size (but different content / split)
            ds["n_train"] = rng.randint(2, ds["n"] - 2)
    if cvt == "kfold":
        cv = {"type": "kfold", "k": rng.choice([2, 3, 3, 4] if big else [2, 3]),
              "shuffle": rng.random() < 0.5, "rs": rng.randint(0, 99)}
        if not cv["shuffle"]:
            cv["rs"] = None
    elif cvt == "stratified":
        # a scheme that reads the class labels (every class has at least two instances)
        cv = {"type": "stratified", "k": 2, "shuffle": rng.random() < 0.5, "rs": rng.randint(0, 99)}
        if not cv["shuffle"]:
            cv["rs"] = None
        for ds in datasets:
            ds["source"] = "ram"
    elif cvt == "single":
        cv = {"type": "single", "test_size": rng.choice([0.25, 0.34, 0.5, 2]),
              "rs": rng.randint(0, 99), "shuffle": rng.random() < 0.7}
    elif cvt == "presplit":
        cv = {"type": "presplit", "inner": None}
    else:
        cv = {"type": "presplit", "inner": {"k": 2, "shuffle": rng.random() < 0.5,
                                            "rs": rng.randint(0, 99)}}
        if not cv["inner"]["shuffle"]:
            cv["inner"]["rs"] = None
    n_st = rng.choice([1, 2, 2, 3] if big else [1, 2, 2])
    if not big and n_ds * n_st > 2 and cv["type"] == "kfold":
        cv["k"] = 2
    strategies = ["s%s" % "abc"[i] for i in range(n_st)]
    if n_ds >= 2 and n_st >= 2 and rng.random() < 0.3:
        # names that contain the separator a store might join them with
        strategies[:2] = ["s", "s_a"]
        datasets[0]["name"], datasets[1]["name"] = "a_x", "x"
    features = None
    r = rng.random()
    if r < 0.25:
        features = "first"  # explicit feature subset: only the first column
    elif r < 0.45:
        features = "reversed"  # explicit features, in another order than the data's columns
        for ds in datasets:
            ds["cols"] = max(ds["cols"], 2)
    n_runs = rng.randint(1, 4 if big else 3)
    runs = []
    for i in range(n_runs + 1):
        runs.append(_gen_run(rng, store, first=(i == 0)))
    if store == "hdd" and len(strategies) >= 2 and rng.random() < 0.35:
        # the benchmark is extended later: early runs know only some of the strategies
        first_full = rng.randint(1, len(runs) - 1)
        for j, r_ in enumerate(runs):
            if j < first_full:
                r_["strategies"] = strategies[:-1]
                r_["restart"] = True
        runs[first_full]["restart"] = True
    tuned = rng.sample(strategies, 1) if rng.random() < 0.25 else []
    if not tuned and len(runs) >= 2 and not any(r_["opts"]["save_fitted_strategies"] for r_ in runs) \
            and rng.random() < 0.5:
        # one strategy's estimator gets another hyper-parameter before a later run, which then
        # (mostly) recomputes everything
        j = rng.randint(1, len(runs) - 1)
        runs[j]["retune"] = {"strategy": rng.choice(strategies), "salt": rng.randint(1, 5)}
        if rng.random() < 0.7:
            runs[j]["opts"]["overwrite_predictions"] = True
        if rng.random() < 0.7:
            runs[j]["restart"] = False
    scen = {
        "kind": kind, "store": store, "datasets": datasets,
        "data_seed": rng.randint(0, 10 ** 6), "strategies": strategies,
        "features": features, "cv": cv, "runs": runs,
        # strategies whose estimator is a tuning meta-estimator around the estimator
        "tuned": tuned,
        "enumerate_first": store == "hdd",
        "second_crash_frac": rng.random() if rng.random() < 0.6 else None,
        "second_crash_mod": rng.randrange(3),
        "clock": {"seed": rng.randint(0, 10 ** 6),
                  "jump_every": rng.choice([0, 0, 3, 7, 13]),
                  "jump_hours": rng.choice([-30, -2, 5, 400])},
    }
    return scen


def _gen_run(rng, store, first):
    if store == "ram":
        opts = {"overwrite_predictions": rng.random() < 0.5,
                "predict_on_train": rng.random() < 0.5,
                "save_fitted_strategies": False,
                "overwrite_fitted_strategies": False}
    else:
        save = rng.random() < 0.6
        opts = {"overwrite_predictions": (not first) and rng.random() < 0.2,
                "predict_on_train": rng.random() < 0.5,
                "save_fitted_strategies": save,
                "overwrite_fitted_strategies": save and (not first) and rng.random() < 0.15}
    return {"opts": opts,
            "restart": rng.random() < 0.75,
            # crash point as a fraction of the calls this run would make
            "crash_frac": rng.random() if rng.random() < (0.0 if first else 0.45) else None,
            "exc": "kill" if rng.random() < 0.25 else "fault"}


# ------------------------------------------------------------------ world
def _make_data(scen):
    """name -> (DataFrame as the dataset will load it is decided later), here the
    raw panel: list of instances."""
    rs = np.random.RandomState(scen["data_seed"])
    out = {}
    base = 0
    for ds in scen["datasets"]:
        rows = []
        for i in range(ds["n"]):
            iid = base + i + 1
            cells = []
            for c in range(ds["cols"]):
                vals = np.round(rs.normal(size=ds["len"]), 3)
                vals[0] = float(iid)  # instance identity travels with the data
                cells.append(vals)
            if scen["kind"] == "tsc":
                target = str(i % ds["classes"])
            else:
                target = float(np.round(rs.normal(), 3))
                if ds.get("target_kind") == "small":
                    target = float("%.7f" % (target * 1e-4))   # more decimals than "%.6f" keeps
                elif ds.get("target_kind") == "int":
                    target = int(round(target * 10))  # counts: an integer-dtype target column
            rows.append((cells, target))
        out[ds["name"]] = rows
        base += 100
    return out


def _rows_to_frame(rows, index=None, target_pos="last"):
    ncol = len(rows[0][0])
    data = {"dim_%d" % c: [pd.Series(r[0][c]) for r in rows] for c in range(ncol)}
    df = pd.DataFrame(data)
    df["target"] = [r[1] for r in rows]
    if target_pos == "first":
        df = df[["target"] + [c for c in df.columns if c != "target"]]
    elif target_pos == "middle" and ncol >= 2:
        cols = [c for c in df.columns if c != "target"]
        df = df[cols[:1] + ["target"] + cols[1:]]
    if index is not None:
        df.index = index
    return df


def _write_ts(path, name, rows):
    ncol = len(rows[0][0])
    labels = sorted({r[1] for r in rows})
    with open(path, "w") as f:
        f.write("@problemName %s\n@timeStamps false\n@missing false\n" % name)
        f.write("@univariate %s\n@equalLength true\n" % ("true" if ncol == 1 else "false"))
        f.write("@classLabel true %s\n@data\n" % " ".join(labels))
        for cells, target in rows:
            f.write(":".join(",".join(repr(float(v)) for v in c) for c in cells))
            f.write(":%s\n" % target)


class Shared:
    """Per-scenario immutable inputs: raw data, dataset files, and the truth
    (computed once, independently of the orchestrator)."""

    def __init__(self, scen):
        self.scen = scen
        self.root = tempfile.mkdtemp(prefix="simkit-c19-")
        self.data_dir = os.path.join(self.root, "data")
        os.makedirs(self.data_dir)
        self.raw = _make_data(scen)
        for ds in scen["datasets"]:
            if ds["source"] == "uea":
                d = os.path.join(self.data_dir, ds["name"])
                os.makedirs(d)
                rows = self.raw[ds["name"]]
                nt = ds["n_train"]
                _write_ts(os.path.join(d, ds["name"] + "_TRAIN.ts"), ds["name"], rows[:nt])
                _write_ts(os.path.join(d, ds["name"] + "_TEST.ts"), ds["name"], rows[nt:])
        self.n_hist = 0
        w = World(scen, self.new_root(), self)
        with peers.paused():
            self.frames = w.loaded_frames()
            self.fold_map = {n: w.folds(f) for n, f in self.frames.items()}
        self.truth = None

    def new_root(self):
        self.n_hist += 1
        r = os.path.join(self.root, "h%d" % self.n_hist)
        os.makedirs(r)
        return r

    def close(self):
        shutil.rmtree(self.root, ignore_errors=True)


class World:
    """The durable part (a scratch directory) plus a factory for 'processes'."""

    def __init__(self, scen, root, shared):
        self.scen = scen
        self.root = root
        self.results_dir = os.path.join(root, "results")
        os.makedirs(self.results_dir)
        self.shared = shared
        self.data_dir = shared.data_dir   # read-only input files of the scenario
        self.raw = shared.raw
        self.salts = {}            # strategy name -> current hyper-parameter of its estimator
        self.user_strategies = []  # the strategy objects the user handed to the live Orchestrator

    def make_cv(self):
        from sklearn.model_selection import KFold, StratifiedKFold
        from sktime.series_as_features.model_selection import PresplitFilesCV, SingleSplit
        c = self.scen["cv"]
        if c["type"] == "kfold":
            return KFold(n_splits=c["k"], shuffle=c["shuffle"], random_state=c["rs"])
        if c["type"] == "stratified":
            return StratifiedKFold(n_splits=c["k"], shuffle=c["shuffle"], random_state=c["rs"])
        if c["type"] == "single":
            return SingleSplit(test_size=c["test_size"], random_state=c["rs"],
                               shuffle=c["shuffle"])
        inner = None
        if c["inner"]:
            inner = KFold(n_splits=c["inner"]["k"], shuffle=c["inner"]["shuffle"],
                          random_state=c["inner"]["rs"])
        return PresplitFilesCV(cv=inner)

    def make_datasets(self):
        from sktime.benchmarking.data import RAMDataset, UEADataset
        out = []
        for ds in self.scen["datasets"]:
            if ds["source"] == "uea":
                out.append(UEADataset(path=self.data_dir, name=ds["name"]))
            elif ds["source"] == "ram_presplit":
                # hand-built pre-split data: the 'train' / 'test' labels are interleaved
                rows = self.raw[ds["name"]]
                nt = ds["n_train"]
                lab = ["test"] * len(rows)
                step = max(1, len(rows) // nt)
                for i in list(range(0, len(rows), step))[:nt]:
                    lab[i] = "train"
                if lab.count("train") < 2:
                    lab[-1] = lab[-2] = "train"
                if lab.count("test") < 2:
                    lab[0] = lab[1] = "test"
                out.append(RAMDataset(_rows_to_frame(rows, index=lab, target_pos=ds.get("target_pos", "last")),
                                      name=ds["name"]))
            else:
                rows_ = self.raw[ds["name"]]
                lab_ = None
                if ds.get("row_labels", 0):
                    # row labels that are not the positions 0..n-1 (records store positions)
                    lab_ = list(range(ds["row_labels"], ds["row_labels"] + len(rows_)))
                out.append(RAMDataset(_rows_to_frame(rows_, index=lab_,
                                                     target_pos=ds.get("target_pos", "last")),
                                      name=ds["name"]))
        return out

    def make_tasks(self):
        from sktime.benchmarking.tasks import TSCTask, TSRTask
        T = TSCTask if self.scen["kind"] == "tsc" else TSRTask
        out = []
        for ds in self.scen["datasets"]:
            feats = None
            if self.scen["features"] == "first":
                feats = ["dim_0"]
            elif self.scen["features"] == "reversed":
                feats = ["dim_%d" % c for c in reversed(range(ds["cols"]))]
            out.append(T(target="target", features=feats))
        return out

    def make_estimator(self, name, salt=None):
        salt = self.salts.get(name, 0) if salt is None else salt
        spy = peers.SpyClassifier(tag=name, salt=salt) if self.scen["kind"] == "tsc" \
            else peers.SpyRegressor(tag=name, salt=salt)
        if name in (self.scen.get("tuned") or []):
            # the strategy's estimator is a tuning meta-estimator (scikit-learn grid search)
            return peers.quiet_search(spy)
        return spy

    def make_strategies(self, names=None):
        from sktime.benchmarking.strategies import TSCStrategy, TSRStrategy
        S = TSCStrategy if self.scen["kind"] == "tsc" else TSRStrategy
        return [S(self.make_estimator(n), name=n) for n in (names or self.scen["strategies"])]

    def make_process(self, keep_ram=None, names=None):
        """Fresh Python objects = a restarted process; only the directory (and
        nothing of the RAM store) survives."""
        from sktime.benchmarking.orchestration import Orchestrator
        from sktime.benchmarking.results import HDDResults, RAMResults
        if self.scen["store"] == "hdd":
            results = HDDResults(path=self.results_dir)
        else:
            results = RAMResults()
        self.user_strategies = self.make_strategies(names)
        orch = Orchestrator(tasks=self.make_tasks(), datasets=self.make_datasets(),
                            strategies=self.user_strategies, cv=self.make_cv(),
                            results=results)
        return orch

    # ---- truth, computed independently of the orchestrator
    def loaded_frames(self):
        """What each dataset's load() returns (index matters for presplit)."""
        out = {}
        for ds, d in zip(self.scen["datasets"], self.make_datasets()):
            out[ds["name"]] = d.load()
        return out

    def folds(self, frame):
        """The folds as the CV scheme *documents* them, computed without the repo's splitter
        classes: the pre-split fold is 'rows labelled train' / 'rows labelled test' (then the
        inner scikit-learn k-fold over positions); a single split is scikit-learn's
        train_test_split of the positions; k-fold is scikit-learn's own."""
        from sklearn.model_selection import KFold, train_test_split
        c = self.scen["cv"]
        n = len(frame)
        idx = np.arange(n)
        if c["type"] in ("kfold", "stratified"):
            from sklearn.model_selection import StratifiedKFold
            cv = (KFold if c["type"] == "kfold" else StratifiedKFold)(
                n_splits=c["k"], shuffle=c["shuffle"], random_state=c["rs"])
            # (a scheme that looks at the labels is given the TARGET column, wherever it stands)
            return [(np.asarray(tr), np.asarray(te))
                    for tr, te in cv.split(np.zeros(n), np.asarray(frame["target"]))]
        if c["type"] == "single":
            tr, te = train_test_split(idx, test_size=c["test_size"], train_size=None,
                                      random_state=c["rs"], shuffle=c["shuffle"], stratify=None)
            return [(np.asarray(tr), np.asarray(te))]
        labels = np.asarray(frame.index)
        out = [(idx[labels == "train"], idx[labels == "test"])]
        if c["inner"]:
            inner = KFold(n_splits=c["inner"]["k"], shuffle=c["inner"]["shuffle"],
                          random_state=c["inner"]["rs"])
            out += [(np.asarray(tr), np.asarray(te)) for tr, te in inner.split(idx, y=frame["target"])]
        return out


# ------------------------------------------------------------------ model
class Model:
    """Reference model of the store: a dict of records, a set of saved fitted
    strategies and the registry; `plan()` predicts which estimator calls a run
    must make given what is already stored."""

    def __init__(self, world):
        self.w = world
        self.scen = world.scen
        self.hdd = self.scen["store"] == "hdd"
        self.records = {}     # (strategy, dataset, fold, part) -> expected record
        self.fitted = set()   # (strategy, dataset, fold)
        self.master = False   # results.pickle exists
        sh = world.shared
        self.frames = sh.frames
        self.fold_map = sh.fold_map
        if sh.truth is None:
            with peers.paused():
                sh.truth = self._truth()
        self.truth = dict(sh.truth)   # (own copy: a strategy may be re-configured in this history)

    def retune(self, s, salt):
        """The user changed a hyper-parameter of strategy s: what it computes from now on."""
        sh = self.w.shared
        cache = sh.__dict__.setdefault("truth_cache", {})
        if (s, salt) not in cache:
            with peers.paused():
                cache[(s, salt)] = self._truth(only=s, salt=salt)
        self.truth.update(cache[(s, salt)])

    def features(self, frame):
        if self.scen["features"] == "first":
            return ["dim_0"]
        cols = [c for c in frame.columns if c != "target"]
        if self.scen["features"] == "reversed":
            return list(reversed(cols))
        return cols

    def _truth(self, only=None, salt=None):
        """Expected record for every unit: clone of the estimator fitted on the
        fold's training instances, predicting the recorded instances."""
        from sklearn.base import clone
        truth = {}
        for s in self.scen["strategies"]:
            if only is not None and s != only:
                continue
            est0 = self.w.make_estimator(s, salt=salt if only is not None else 0)
            for dname, frame in self.frames.items():
                feats = self.features(frame)
                for f, (tr, te) in enumerate(self.fold_map[dname]):
                    est = clone(est0)
                    train = frame.iloc[tr]
                    est.fit(train[feats], train["target"])
                    for part, idx in (("train", tr), ("test", te)):
                        sub = frame.iloc[idx]
                        truth[(s, dname, f, part)] = {
                            "index": [int(i) for i in idx],
                            "y_true": [_norm(v) for v in sub["target"]],
                            "y_pred": [_norm(v) for v in est.predict(sub[feats])],
                            "ids": peers._instance_ids(sub[feats]),
                            "train_ids": peers._instance_ids(train[feats]),
                        }
        return truth

    def units(self, names=None):
        for ds in self.scen["datasets"]:
            for s in (names or self.scen["strategies"]):
                for f in range(len(self.fold_map[ds["name"]])):
                    yield s, ds["name"], f

    def plan(self, opts, names=None):
        """List of (unit, [steps]) the run must perform, from the model store.
        A step is ('fit'|'predict_train'|'predict_test'|'save_fitted')."""
        ow_p, on_train = opts["overwrite_predictions"], opts["predict_on_train"]
        save, ow_f = opts["save_fitted_strategies"], opts["overwrite_fitted_strategies"]
        plan = []
        for (s, d, f) in self.units(names):
            if self.hdd:
                has_test = (s, d, f, "test") in self.records
                has_train = (s, d, f, "train") in self.records
                has_fit = (s, d, f) in self.fitted
            else:
                has_test = has_train = has_fit = False  # RAM store always recomputes
            need_test = ow_p or not has_test
            need_train = on_train and (ow_p or not has_train)
            need_fit_save = save and (ow_f or not has_fit)
            if not (need_test or need_train or need_fit_save):
                continue
            steps = ["fit"]
            if need_fit_save:
                steps.append("save_fitted")
            if need_train:
                steps.append("predict_train")
            if need_test:
                steps.append("predict_test")
            plan.append(((s, d, f), steps))
        return plan

    def expected_calls(self, plan):
        calls = []
        for (s, d, f), steps in plan:
            for st in steps:
                if st == "fit":
                    calls.append((s, "fit", tuple(self.truth[(s, d, f, "train")]["ids"])))
                elif st == "predict_train":
                    calls.append((s, "predict", tuple(self.truth[(s, d, f, "train")]["ids"])))
                elif st == "predict_test":
                    calls.append((s, "predict", tuple(self.truth[(s, d, f, "test")]["ids"])))
        return calls

    def apply(self, plan, crash_at):
        """Advance the model store by a run that fails at its crash_at-th
        estimator call (None = completes).  Returns (n_calls_made, where)."""
        k = 0
        where = None
        for (s, d, f), steps in plan:
            for st in steps:
                if st == "save_fitted":
                    self.fitted.add((s, d, f))
                    continue
                k += 1
                if crash_at is not None and k == crash_at:
                    return k, (st, steps)
                if st == "predict_train":
                    self.records[(s, d, f, "train")] = self.truth[(s, d, f, "train")]
                elif st == "predict_test":
                    self.records[(s, d, f, "test")] = self.truth[(s, d, f, "test")]
        return k, where

    def state_hash(self):
        return short_hash([sorted(map(str, self.records)), sorted(map(str, self.fitted)),
                           self.master])


def _ints(values):
    """Stored instance positions as ints; anything that is not an integer stays as it is (and
    then simply differs from the expected positions)."""
    out = []
    for x in values:
        try:
            out.append(int(x))
        except (TypeError, ValueError):
            out.append(str(x))
    return out


def _norm(v):
    """Normal form of a stored value (CSV turns '1' into 1)."""
    if isinstance(v, (float, np.floating)):
        return repr(float(v))
    if isinstance(v, (int, np.integer)):
        return repr(float(v))
    s = str(v)
    try:
        return repr(float(s))
    except ValueError:
        return s


# ------------------------------------------------------------------ observation
def _scan_store(results_dir):
    """All files under the results directory: relpath -> sha256 of bytes."""
    out = {}
    for dp, dn, fn in os.walk(results_dir):
        for n in fn:
            p = os.path.join(dp, n)
            with open(p, "rb") as f:
                out[os.path.relpath(p, results_dir)] = hashlib.sha256(f.read()).hexdigest()
    return out


def _key_path(s, d, f, part, ext):
    return os.path.join(s, d, "%s_%s_%d.%s" % (s, part, f, ext))


def _read_csv_record(path):
    df = pd.read_csv(path, header=0, float_precision="round_trip")   # (exact float parsing)
    return {"index": [int(i) for i in df["index"]],
            "y_true": [_norm(v) for v in df["y_true"]],
            "y_pred": [_norm(v) for v in df["y_pred"]],
            "times": [str(df.loc[0, c]) for c in df.columns if c.endswith("_time")]}


class History:
    """Executes one history of runs against real code and checks the model
    after every run."""

    def __init__(self, scen, res, label, shared):
        self.scen = scen
        self.res = res
        self.label = label
        self.root = shared.new_root()
        self.world = World(scen, self.root, shared)
        self.registry_checked = False
        self.live_names = None
        self.verified = {}  # relpath -> content hash already checked against the model
        self.model = Model(self.world)
        self.orch = None
        self.clock = SimClock(scen["clock"]["seed"], scen["clock"]["jump_every"],
                              scen["clock"]["jump_hours"])
        self.completed_once = False
        self.events = []

    def v(self, cls, detail, **sig):
        sig.setdefault("store", self.scen["store"])
        self.res.violate("C19." + cls, "[%s] %s" % (self.label, detail), **sig)

    def run(self, i, run, crash_at):
        """One fit_predict call.  crash_at: absolute k or None."""
        scen, model, res = self.scen, self.model, self.res
        opts = run["opts"]
        names = run.get("strategies")
        fresh = run["restart"] or self.orch is None or names != self.live_names
        rt = run.get("retune")
        if rt:
            # between two runs the user changes a hyper-parameter of one strategy's estimator:
            # on the strategy object they hold (same process) / when building it (new process)
            self.world.salts[rt["strategy"]] = rt["salt"]
            model.retune(rt["strategy"], rt["salt"])
            res.probe("strategy_reconfigured_between_runs")
            if not fresh:
                for st_ in self.world.user_strategies:
                    if st_.name == rt["strategy"]:
                        st_.set_params(estimator__salt=rt["salt"])
                        res.probe("strategy_reconfigured_in_live_process")
        if fresh:
            if self.orch is not None:
                res.fault("crash_restart")
            self.orch = self.world.make_process(names=names)
            self.live_names = names
            if names:
                res.probe("benchmark_extended_later")
        else:
            res.fault("rerun_same_process")
            res.probe("rerun_same_process")
        if model.hdd is False and fresh:
            # a RAM store does not outlive its process
            model.records.clear()
        before = _scan_store(self.world.results_dir) if model.hdd else {}
        complete_before = {k for k in model.records}
        fitted_before = set(model.fitted)
        plan = model.plan(opts, names)
        exp_calls = model.expected_calls(plan)
        n_total = len(exp_calls)
        if crash_at is not None and (crash_at < 1 or crash_at > n_total):
            crash_at = None
        peers.CTX.log = []
        if crash_at is not None:
            peers.arm(crash_at, run["exc"])
        else:
            peers.disarm()
            peers.CTX.calls = 0
        outcome = "completed"
        with patched_orchestration_clock(self.clock):
            try:
                self.orch.fit_predict(**opts)
            except peers.InjectedFault:
                outcome = "crashed"
            except peers.InjectedKill:
                outcome = "crashed"
                res.probe("kill_not_exception")
            except Exception as e:  # noqa
                outcome = "error"
                self.v("run_raised", "run %d raised %s: %s" % (i, type(e).__name__, e),
                       exc=type(e).__name__)
        peers.disarm()
        log = [(r["tag"], r["m"], tuple(r["ids"])) for r in peers.CTX.log]
        if crash_at is not None:
            res.fault("peer_raises@k")
            if outcome == "completed":
                self.v("fault_swallowed", "run %d completed although call %d raised"
                       % (i, crash_at), run=i)
        n_made, where = model.apply(plan, crash_at)
        if where is not None:
            st, steps = where
            if st == "fit":
                res.probe("crash_at_fit")
            if st == "predict_test" and "predict_train" in steps:
                res.probe("crash_between_train_and_test_prediction")
        if outcome == "completed":
            if model.hdd:
                model.master = True
            self.completed_once = True
        if n_total == 0:
            res.probe("resume_all_complete")
        if any(set(steps) != {"fit", "save_fitted", "predict_train", "predict_test"}
               and len(steps) >= 2 and (u + ("test",) in complete_before
                                       or u + ("train",) in complete_before
                                       or u in fitted_before)
               for u, steps in plan):
            res.probe("resume_with_partial_unit")
        if opts["overwrite_predictions"] and complete_before:
            res.probe("overwrite_run")
        res.states.add(model.state_hash())
        res.ops += 1
        self.events.append((i, outcome, crash_at, n_total, short_hash(log)))
        if outcome == "error":
            return outcome

        # (4) exactly the missing ones, in order: call log == model's call list
        exp = exp_calls[:crash_at] if crash_at is not None else exp_calls
        if log != exp:
            extra = [c for c in log if c not in exp]
            missing = [c for c in exp if c not in log]
            if extra:
                c = extra[0]
                self.v("recomputed_or_extra_call",
                       "run %d: estimator call %s on ids %s not required (plan had %d calls, "
                       "log has %d)" % (i, c[:2], list(c[2])[:6], len(exp), len(log)),
                       what="extra")
            elif missing:
                c = missing[0]
                self.v("missing_call",
                       "run %d: required estimator call %s on ids %s not made"
                       % (i, c[:2], list(c[2])[:6]), what="missing")
            else:
                self.v("call_order", "run %d: calls made in a different order or "
                       "multiplicity than tasks x datasets x strategies x folds" % i,
                       what="order")
        # (6) idempotence is this same check with an empty plan.
        if model.hdd:
            self.check_disk(i, before, complete_before, fitted_before, opts, outcome)
        else:
            res.probe("ram_store")
            if outcome == "completed":
                self.check_ram(i)
        return outcome

    # ---- on-disk checks
    def check_disk(self, i, before, complete_before, fitted_before, opts, outcome):
        model = self.model
        after = _scan_store(self.world.results_dir)
        exp_files = {}
        for (s, d, f, part) in model.records:
            exp_files[_key_path(s, d, f, part, "csv")] = ("rec", (s, d, f, part))
        for (s, d, f) in model.fitted:
            exp_files[_key_path(s, d, f, "train", "pickle")] = ("fit", (s, d, f))
        if model.master:
            exp_files["results.pickle"] = ("master", None)
        # (1) exactly-once: file set == model key set
        extra = sorted(set(after) - set(exp_files))
        missing = sorted(set(exp_files) - set(after))
        if extra:
            self.v("unexpected_file", "after run %d: file %s not accounted for by the model"
                   % (i, extra[0]), what="extra_file")
        if missing:
            self.v("missing_record", "after run %d: %s missing from the store"
                   % (i, missing[0]), what="missing_file",
                   kind=exp_files[missing[0]][0])
        # (2) content
        for rel, (kind, key) in exp_files.items():
            if rel not in after or self.verified.get(rel) == after[rel]:
                continue
            self.verified[rel] = after[rel]
            path = os.path.join(self.world.results_dir, rel)
            if kind == "rec":
                try:
                    got = _read_csv_record(path)
                except Exception as e:  # noqa
                    self.v("unreadable_record", "after run %d: %s unreadable: %s" % (i, rel, e))
                    continue
                exp = model.records[key]
                for fld in ("index", "y_true", "y_pred"):
                    if got[fld] != exp[fld]:
                        self.v("wrong_record_" + fld,
                               "after run %d: %s field %s is %s..., an independent fit/predict "
                               "of the clone gives %s..." % (i, rel, fld, got[fld][:4], exp[fld][:4]),
                               field=fld, part=key[3])
                        break
            elif kind == "fit":
                self.check_fitted_pickle(i, path, rel, key)
        # (3) no-modify: complete files unchanged when overwriting is disabled
        for rel, h in before.items():
            if rel == "results.pickle" or rel not in after:
                continue
            is_csv = rel.endswith(".csv")
            protected = (is_csv and not opts["overwrite_predictions"]) or \
                        (not is_csv and not opts["overwrite_fitted_strategies"])
            if protected and after[rel] != h:
                self.v("modified_complete_artifact",
                       "run %d rewrote %s although overwriting was disabled" % (i, rel),
                       kind="csv" if is_csv else "pickle")
        # (7) an overwrite run rewrites every requested record (clock stamps move)
        if opts["overwrite_predictions"] and outcome == "completed":
            for rel, h in before.items():
                if not rel.endswith(".csv") or rel not in after or after[rel] != h:
                    continue
                if "_train_" in os.path.basename(rel) and not opts["predict_on_train"]:
                    continue
                self.v("overwrite_did_not_rewrite",
                       "run %d with overwrite_predictions left %s untouched" % (i, rel))
                break
        # (7b) ... and, with overwrite_fitted_strategies, every saved fitted strategy
        if opts.get("save_fitted_strategies") and opts.get("overwrite_fitted_strategies") \
                and outcome == "completed":
            for rel, h in before.items():
                if not rel.endswith(".pickle") or rel == "results.pickle" or rel not in after:
                    continue
                if after[rel] == h:
                    self.v("overwrite_did_not_rewrite", "run %d with overwrite_fitted_strategies "
                           "left the saved fitted strategy %s untouched" % (i, rel), kind="pickle")
                    break
        # (5) registry complete after a completed run, read from a fresh load
        if outcome == "completed" and (after != before or not self.registry_checked):
            self.registry_checked = True
            self.check_registry(i)

    def check_fitted_pickle(self, i, path, rel, key):
        from joblib import load
        s, d, f = key
        model = self.model
        try:
            with peers.paused():
                strat = load(path)
                frame = model.frames[d]
                te = model.fold_map[d][f][1]
                y = strat.predict(frame.iloc[te])
            got = [_norm(v) for v in y]
        except Exception as e:  # noqa
            self.v("fitted_strategy_unusable", "after run %d: %s does not load/predict: %s: %s"
                   % (i, rel, type(e).__name__, e))
            return
        if got != model.truth[(s, d, f, "test")]["y_pred"]:
            self.v("fitted_strategy_wrong", "after run %d: saved fitted strategy %s does not "
                   "reproduce the fold's predictions" % (i, rel))

    def check_registry(self, i):
        from joblib import load
        model = self.model
        path = os.path.join(self.world.results_dir, "results.pickle")
        if not os.path.isfile(path):
            self.v("master_file_missing", "completed run %d left no results.pickle" % i)
            return
        with peers.paused():
            results = load(path)
        exp_pairs = {}
        for (s, d, f, part) in model.records:
            exp_pairs.setdefault((f, part), set()).add((s, d))
        all_s = {k[0] for k in model.records}
        all_d = {k[1] for k in model.records}
        for (f, part), pairs in sorted(exp_pairs.items()):
            # the registry is a cross product of every strategy and dataset with any record:
            # a (fold, part) is only readable when all of those pairs have it
            if len(pairs) != len(all_s) * len(all_d):
                continue
            try:
                with peers.paused():
                    got = list(results.load_predictions(cv_fold=f, train_or_test=part))
            except Exception as e:  # noqa
                self.v("load_predictions_raised", "after completed run %d: load_predictions(%d, %s) "
                       "raised %s: %s" % (i, f, part, type(e).__name__, e), exc=type(e).__name__)
                return
            got_pairs = [(r.strategy_name, r.dataset_name) for r in got]
            if len(got_pairs) != len(set(got_pairs)):
                self.v("duplicate_record", "after run %d: load_predictions(%d,%s) yields a "
                       "(strategy, dataset) pair twice: %s" % (i, f, part, got_pairs))
                return
            if set(got_pairs) != pairs:
                self.v("registry_incomplete",
                       "after completed run %d (fresh load of results.pickle): "
                       "load_predictions(%d, %r) yields %s but the store holds records for %s"
                       % (i, f, part, sorted(set(got_pairs)), sorted(pairs)),
                       what="missing" if pairs - set(got_pairs) else "extra")
                return
            for r in got:
                exp = model.records[(r.strategy_name, r.dataset_name, f, part)]
                if _ints(r.index) != exp["index"] or \
                        [_norm(x) for x in r.y_true] != exp["y_true"] or \
                        [_norm(x) for x in r.y_pred] != exp["y_pred"]:
                    self.v("readback_differs", "after run %d: record read back for %s/%s fold %d "
                           "%s differs from what was predicted" % (
                               i, r.strategy_name, r.dataset_name, f, part))
                    return
            # class labels are strings ('0', '1', ..): what is read back must be what was stored,
            # not a number that prints alike
            if self.scen["kind"] == "tsc" and got:
                bad = [x for r in got for x in list(r.y_true)[:3] if not isinstance(x, str)]
                if bad and isinstance(model.frames[got[0].dataset_name]["target"].iloc[0], str):
                    # (recorded once per scenario at its end: it must not cut the histories short)
                    if not getattr(self.res, "deferred", None):
                        self.res.deferred = [("readback_label_type", "[%s] after run %d: class labels "
                                              "stored as strings are read back from disk as %s (e.g. %r)"
                                              % (self.label, i, type(bad[0]).__name__, bad[0]))]
        # saved fitted strategies read back through the store's own API
        for (s, d, f) in sorted(model.fitted):
            if (s, d, f, "test") not in model.truth:
                continue
            try:
                with peers.paused():
                    strat = results.load_fitted_strategy(s, d, f)
                    frame = model.frames[d]
                    te = model.fold_map[d][f][1]
                    got = [_norm(x) for x in strat.predict(frame.iloc[te])]
            except Exception as e:  # noqa
                self.v("fitted_strategy_unusable", "after run %d: load_fitted_strategy(%s, %s, %d) "
                       "raised %s: %s" % (i, s, d, f, type(e).__name__, e), api=True)
                return
            if got != model.truth[(s, d, f, "test")]["y_pred"]:
                self.v("fitted_strategy_wrong", "after run %d: load_fitted_strategy(%s, %s, %d) returns "
                       "a strategy that does not reproduce that fold's predictions" % (i, s, d, f),
                       api=True)
                return

    def check_ram(self, i):
        model = self.model
        results = self.orch.results
        exp_keys = {k for k in model.records}
        got_keys = set(results.results.keys())
        exp_names = {"%s_%s_%s_%d" % (s, d, part, f) for (s, d, f, part) in exp_keys}
        if len(got_keys) == len(exp_keys) and all(isinstance(k_, tuple) for k_ in got_keys):
            exp_names = got_keys   # (how the store names its keys is its own business)
        if len(got_keys) != len(exp_keys) or got_keys != exp_names:
            self.v("ram_key_set", "after run %d: the RAM store holds %d records, %d were produced "
                   "(records of different strategy/dataset pairs share a key?) %s" % (
                       i, len(got_keys), len(exp_keys), sorted(map(str, got_keys ^ exp_names))[:4]))
            return
        by = {}
        for (s, d, f, part) in exp_keys:
            by.setdefault((f, part), set()).add((s, d))
        for (f, part), pairs in sorted(by.items()):
            try:
                got = list(results.load_predictions(cv_fold=f, train_or_test=part))
            except Exception as e:  # noqa
                self.v("load_predictions_raised", "RAM load_predictions(%d,%s) raised %s: %s"
                       % (f, part, type(e).__name__, e), exc=type(e).__name__)
                return
            gp = [(r.strategy_name, r.dataset_name) for r in got]
            if sorted(gp) != sorted(pairs):
                self.v("registry_incomplete", "RAM: load_predictions(%d,%s) yields %s, expected %s"
                       % (f, part, sorted(gp), sorted(pairs)))
                return
            for r in got:
                exp = model.records[(r.strategy_name, r.dataset_name, f, part)]
                if _ints(r.index) != exp["index"] or \
                        [_norm(x) for x in r.y_true] != exp["y_true"] or \
                        [_norm(x) for x in r.y_pred] != exp["y_pred"]:
                    self.v("wrong_record_y_pred", "RAM: record %s/%s fold %d %s differs from an "
                           "independent fit/predict" % (r.strategy_name, r.dataset_name, f, part),
                           field="ram", part=part)
                    return

    def final_store(self):
        """Canonical content of the store (records + registry), for (8)."""
        out = {}
        for rel in _scan_store(self.world.results_dir):
            if rel.endswith(".csv"):
                r = _read_csv_record(os.path.join(self.world.results_dir, rel))
                out[rel] = (r["index"], r["y_true"], r["y_pred"])
            elif rel == "results.pickle":
                from joblib import load
                with peers.paused():
                    m = load(os.path.join(self.world.results_dir, rel))
                out[rel] = (sorted(m.strategy_names), sorted(m.dataset_names))
            else:
                out[rel] = "pickle"
        return out


# ------------------------------------------------------------------ execution
def _crash_point(run, plan_len):
    if run.get("crash_at") is not None:
        return run["crash_at"]
    if run.get("crash_frac") is not None and plan_len > 0:
        return 1 + int(run["crash_frac"] * plan_len) % plan_len
    return None


def _resume_opts(run):
    """The resume of a failed run: same options, overwriting disabled."""
    out = {"opts": dict(run["opts"], overwrite_predictions=False,
                        overwrite_fitted_strategies=False),
           "restart": True, "exc": "fault"}
    if run.get("strategies"):
        out["strategies"] = run["strategies"]
    return out


def _finish(h, res, digest):
    digest.update(repr(h.events).encode())
    res.sim_time += h.clock.elapsed()
    if h.clock.went_back:
        res.probe("clock_backwards_seen")
        res.fault("clock_jump_back", h.clock.went_back)
    if h.clock.went_fwd:
        res.fault("clock_jump_fwd", h.clock.went_fwd)


def execute(prop, scen):
    res = RunResult()
    peers.reset()
    res.real.update([
        "benchmarking.orchestration.Orchestrator", "benchmarking.results.HDDResults"
        if scen["store"] == "hdd" else "benchmarking.results.RAMResults",
        "benchmarking.base.BaseResults", "benchmarking.strategies.%s" % (
            "TSCStrategy" if scen["kind"] == "tsc" else "TSRStrategy"),
        "benchmarking.tasks.%s" % ("TSCTask" if scen["kind"] == "tsc" else "TSRTask")])
    for ds in scen["datasets"]:
        res.real.add("benchmarking.data.%s" % ("UEADataset" if ds["source"] == "uea" else "RAMDataset"))
        if ds["source"] == "ram_presplit":
            res.probe("presplit_labels_interleaved")
        if ds["source"] != "uea" and ds.get("target_pos", "last") != "last":
            res.probe("target_column_not_last")
    res.real.add({"kfold": "sklearn.KFold", "stratified": "sklearn.StratifiedKFold", "single": "series_as_features.model_selection.SingleSplit",
                  "presplit": "series_as_features.model_selection.PresplitFilesCV"}[scen["cv"]["type"]])
    res.stub.update(["SpyClassifier" if scen["kind"] == "tsc" else "SpyRegressor",
                     "SimClock(pd.Timestamp.now in orchestration.py)"])
    if scen["cv"]["type"] == "presplit":
        res.probe("presplit_cv")
    if scen["cv"]["type"] == "stratified":
        res.probe("label_aware_cv")
    if scen.get("tuned"):
        res.probe("tuning_meta_estimator")
        res.real.add("sklearn.GridSearchCV (subclassed for bookkeeping only)")
    if scen["features"] == "reversed":
        res.probe("features_reordered")
    runs = scen["runs"]
    if len({json.dumps(r["opts"], sort_keys=True) for r in runs}) > 1:
        res.probe("options_changed_between_runs")
    digest = hashlib.sha256()
    shared = Shared(scen)
    try:
        # ---- the generated history (crash points at sampled fractions)
        h = History(scen, res, "history", shared)
        for i, run in enumerate(runs):
            plan_len = len(h.model.expected_calls(h.model.plan(run["opts"], run.get("strategies"))))
            k = _crash_point(run, plan_len)
            out = h.run(i, run, k)
            if out == "error":
                break
            if k is not None and out == "crashed":
                rrun = _resume_opts(run)
                if h.run(i, rrun, None) == "error":
                    break
                res.nontrivial = True
                # a further identical run performs no fits
                if h.run(i, dict(rrun, restart=(i % 2 == 0)), None) == "error":
                    break
        _finish(h, res, digest)
        # ---- every crash point of run 0, each compared with an uninterrupted run
        if scen["enumerate_first"] and scen["store"] == "hdd" and not res.violations:
            run0 = dict(runs[0], crash_frac=None, crash_at=None, restart=True)
            ref = History(scen, RunResult(), "reference", shared)
            n_calls = len(ref.model.expected_calls(ref.model.plan(run0["opts"], run0.get("strategies"))))
            ref.run(0, run0, None)
            ref_store = ref.final_store()
            ks = scen.get("crash_points")
            if ks is None:
                ks = list(range(1, n_calls + 1))
            res.probes["crash_points_enumerated"] = 0
            for k in ks:
                if k > n_calls:
                    continue
                h = History(scen, res, "crash@%d" % k, shared)
                out = h.run(0, run0, k)
                if out == "crashed":
                    rrun = _resume_opts(run0)
                    frac2 = scen.get("second_crash_frac")
                    if frac2 is not None and k % 3 == scen.get("second_crash_mod", 0):
                        # the resume itself fails part-way (a second crash), then is resumed
                        n2 = len(h.model.expected_calls(h.model.plan(rrun["opts"], rrun.get("strategies"))))
                        if n2 > 0:
                            j = 1 + int(frac2 * n2) % n2
                            if h.run(0, dict(rrun, exc=run0.get("exc", "fault")), j) == "crashed":
                                res.probe("second_crash_during_resume")
                    if not res.violations and h.run(0, rrun, None) != "error":
                        res.nontrivial = True
                        h.run(0, dict(rrun, restart=(k % 2 == 0)), None)
                # (8) final store == store of an uninterrupted run
                a = h.final_store()
                if not res.violations and a != ref_store:
                    diff = sorted(set(a) ^ set(ref_store)) or \
                        [r for r in a if a[r] != ref_store.get(r)]
                    h.v("final_store_differs_from_uninterrupted",
                        "crash at call %d + resume: final store differs from an uninterrupted "
                        "run at %s (%r vs %r)" % (k, diff[0], a.get(diff[0]),
                                                  ref_store.get(diff[0])),
                        what="registry" if diff[0] == "results.pickle" else "records")
                _finish(h, res, digest)
                res.probe("crash_points_enumerated")
                if res.violations:
                    break
    finally:
        shared.close()
    for cls_, detail_ in getattr(res, "deferred", None) or []:
        res.violate("C19." + cls_, detail_, store=scen["store"], what="labels")
    res.digest = digest.hexdigest()[:16]
    return res


# ------------------------------------------------------------------ shrinking
def shrink_candidates(prop, scen):
    s = json.loads(json.dumps(scen))
    # fewer runs
    if len(s["runs"]) > 1:
        for cand in ddmin_list(s["runs"]):
            if cand:
                yield dict(s, runs=cand)
    # a single crash point instead of the enumeration
    if s.get("enumerate_first"):
        ks = s.get("crash_points")
        if ks is None:
            yield dict(s, enumerate_first=False)
            for k in range(1, 40):
                yield dict(s, crash_points=[k])
        elif len(ks) > 1:
            for k in ks:
                yield dict(s, crash_points=[k])
    if len(s["strategies"]) > 1:
        for cand in ddmin_list(s["strategies"]):
            if cand:
                yield dict(s, strategies=cand)
    if len(s["datasets"]) > 1:
        for cand in ddmin_list(s["datasets"]):
            if cand:
                yield dict(s, datasets=cand)
    for i, ds in enumerate(s["datasets"]):
        if ds["n"] > 6:
            d2 = dict(ds, n=6, n_train=min(ds["n_train"], 4))
            yield dict(s, datasets=s["datasets"][:i] + [d2] + s["datasets"][i + 1:])
        if ds["cols"] > 1:
            d2 = dict(ds, cols=1)
            yield dict(s, datasets=s["datasets"][:i] + [d2] + s["datasets"][i + 1:])
        if ds["source"] in ("uea", "ram_presplit") and s["cv"]["type"] != "presplit":
            d2 = dict(ds, source="ram")
            yield dict(s, datasets=s["datasets"][:i] + [d2] + s["datasets"][i + 1:])
    if s["cv"]["type"] == "kfold" and s["cv"]["k"] > 2:
        yield dict(s, cv=dict(s["cv"], k=2))
    if s["cv"]["type"] == "presplit" and s["cv"]["inner"]:
        yield dict(s, cv=dict(s["cv"], inner=None))
    if s["features"]:
        yield dict(s, features=None)
    if s["clock"]["jump_every"]:
        yield dict(s, clock=dict(s["clock"], jump_every=0))
    if any(r.get("strategies") for r in s["runs"]):
        yield dict(s, runs=[{k: v for k, v in r.items() if k != "strategies"} for r in s["runs"]])
    for i, r in enumerate(s["runs"]):
        for key in ("overwrite_predictions", "predict_on_train", "save_fitted_strategies",
                    "overwrite_fitted_strategies"):
            if r["opts"][key]:
                o2 = dict(r["opts"])
                o2[key] = False
                if key == "save_fitted_strategies":
                    o2["overwrite_fitted_strategies"] = False
                yield dict(s, runs=s["runs"][:i] + [dict(r, opts=o2)] + s["runs"][i + 1:])
        if r.get("crash_frac") is not None:
            yield dict(s, runs=s["runs"][:i] + [dict(r, crash_frac=None)] + s["runs"][i + 1:])
        if r.get("exc") == "kill":
            yield dict(s, runs=s["runs"][:i] + [dict(r, exc="fault")] + s["runs"][i + 1:])
