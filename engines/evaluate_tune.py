# -*- coding: utf-8 -*-
"""C07 - evaluate() reports what an honest per-fold fit/predict/score gives.
C08 - tuning selects, exposes and refits the candidate with the best CV score.
(DESIGN.md section 7)"""
import hashlib
import json

import numpy as np
import pandas as pd

from engines import common as C
from simkit import peers, sched
from simkit.clock import SimClock, patched_evaluate_clock
from simkit.core import RunResult, ddmin_list, short_hash

LEVEL = {"C07": "exploration", "C08": "exploration"}
TIERS = {"C07": (3000, 150, 80000, 1200), "C08": (1200, 160, 30000, 1200)}
PROBES = {
    "C07": ["strategy_update", "asymmetric_metric", "order_sensitive_scorer", "with_X",
            "return_data", "clock_backwards_seen", "initial_window", "gapped_fh",
            "no_leak_checked", "honest_recomputation_checked", "prefitted_forecaster",
            "missing_values_in_training_window", "fit_params_checked",
            "x_consuming_forecaster", "missing_values_in_test_window", "raw_metric_checked",
            "exogenous_windows_checked", "splitter_object_reused", "splitter_object_reused_unchanged",
            "gapped_time_stamps", "windows_with_holes", "splitter_self_consistency_checked",
            "cutoffs_given_one_by_one", "cutoff_listed_twice", "cutoff_earlier_than_window",
            "integer_valued_series"],
    "C08": ["tie_in_best_score", "greater_is_better", "nested_param_names", "multiplexer_grid",
            "randomized_search", "tuner_as_ensemble_member_checked", "metric_parameter_changed_before_second_fit", "refit_false", "refit_flag_switched_on_without_fit", "grid_with_member_list", "grid_with_long_objects", "interleave_schedule", "pre_dispatch_window",
            "lockstep_history_checked", "sibling_schedule_checked", "list_of_grids",
            "random_state_instance", "tie_not_involving_first", "second_fit_other_grid",
            "fit_horizon_remembered", "prediction_intervals_checked", "undefined_candidate_score",
            "update_predict_single_checked", "update_predict_default_splitter",
            "all_scores_undefined", "step_refused_by_both", "raw_metric_checked",
            "refit_switched_off_and_fitted_again", "refit_failed_on_second_fit", "rescaled_series",
            "revised_batch_checked", "search_with_exogenous_data", "metric_changed_before_second_fit",
            "default_arguments_checked", "grid_with_component_objects"],
}
FAULT_KINDS = {
    "C07": ["clock_jump_fwd", "clock_jump_back"],
    "C08": ["schedule_ooo", "schedule_interleave", "clock_jump_fwd", "clock_jump_back",
            "peer_raises_in_refit"],
}
RULE = {
    "C07": ("seeded (forecaster x splitter x series x strategy x metric x X x return_data) with a "
            "recording spy around a real forecaster and a simulated clock; the oracle replays "
            "the recorded call history against the splitter's own yields. Non-trivial = at least "
            "two folds and an order-sensitive or asymmetric metric or strategy=update; distinct = "
            "canonical scenario JSON."),
    "C08": ("seeded (base forecaster x grid/distributions x splitter x metric direction x n_jobs x "
            "pre_dispatch x refit) with candidate evaluation under the simulated joblib scheduler "
            "(FIFO / out-of-order / baton-passing interleaving); non-trivial = >=2 candidates "
            "evaluated by >=2 parallel tasks under a non-FIFO schedule, or a lock-step history "
            "after refit; distinct = canonical scenario JSON + schedule trace."),
}
ASSUMPTIONS = {
    "C07": ["the splitter's own yields are the given truth (splitter arithmetic is C01, not claimed)",
            "time.time in _functions.py is replaced by a simulated clock; times are never compared"],
    "C08": ["an independent sequential evaluate() of a clone is the reference for each cv_results_ row",
            "any optimum is accepted when several candidates tie on the mean score"],
}


# ------------------------------------------------------------------ metrics
def _asym(y_true, y_pred):
    """Order-sensitive: penalises over-forecasts twice as much."""
    d = np.asarray(y_pred, dtype=float) - np.asarray(y_true, dtype=float)
    return float(np.mean(np.where(d > 0, 2.0 * d, -d)))


def _neg_mae(y_true, y_pred):
    return -float(np.mean(np.abs(np.asarray(y_true, float) - np.asarray(y_pred, float))))


def _rel_true(y_true, y_pred):
    """Error relative to the truth (not symmetric in its arguments)."""
    yt = np.asarray(y_true, float)
    return float(np.mean(np.abs(yt - np.asarray(y_pred, float)) / (np.abs(yt) + 1.0)))


def _skill(y_true, y_pred):
    """Greater is better and order-sensitive."""
    yt = np.asarray(y_true, float)
    return float(1.0 - np.mean(np.abs(yt - np.asarray(y_pred, float)) / (np.abs(yt) + 1.0)))


def _corr(y_true, y_pred):
    """Greater is better; undefined (NaN) for constant forecasts or a single point."""
    a, b = np.asarray(y_true, float), np.asarray(y_pred, float)
    if len(a) < 2 or np.std(a) == 0 or np.std(b) == 0:
        return float("nan")
    return float(np.corrcoef(a, b)[0, 1])


def _nan_mae(y_true, y_pred):
    """Tolerates missing observations in the test window."""
    d = np.abs(np.asarray(y_true, float) - np.asarray(y_pred, float))
    return float(np.nanmean(d)) if np.isfinite(d).any() else float("nan")


def build_metric(name):
    from sktime.performance_metrics.forecasting import (
        MeanAbsolutePercentageError, MeanSquaredError, make_forecasting_scorer)
    if name is None:
        return None
    if name == "smape":
        return MeanAbsolutePercentageError(symmetric=True)
    if name == "mape":
        return MeanAbsolutePercentageError(symmetric=False)
    if name == "mse":
        return MeanSquaredError()
    if name == "rmse":
        return MeanSquaredError(square_root=True)
    if name == "asym":
        return make_forecasting_scorer(_asym, name="asym", greater_is_better=False)
    if name == "asym_class":   # the repo's own asymmetric loss class
        from sktime.performance_metrics.forecasting import MeanAsymmetricError
        return MeanAsymmetricError()
    if name == "asym_np":    # the direction flag as it comes out of a numpy comparison
        return make_forecasting_scorer(_asym, name="asym_np", greater_is_better=np.bool_(False))
    if name == "skill_np":
        return make_forecasting_scorer(_skill, name="skill_np", greater_is_better=np.bool_(True))
    if name == "rel_true":
        return make_forecasting_scorer(_rel_true, name="rel_true", greater_is_better=False)
    if name == "neg_mae":
        return make_forecasting_scorer(_neg_mae, name="neg_mae", greater_is_better=True)
    if name == "skill":
        return make_forecasting_scorer(_skill, name="skill", greater_is_better=True)
    if name == "corr":
        return make_forecasting_scorer(_corr, name="corr", greater_is_better=True)
    if name == "nan_mae":
        return make_forecasting_scorer(_nan_mae, name="nan_mae", greater_is_better=False)
    raise ValueError(name)


def raw_metric(name):
    """The metric as a plain function of (y_true, y_pred), written from its definition and
    independent of the repo's scorer objects."""
    eps = np.finfo(np.float64).eps

    def smape(t, p):
        return float(np.mean(2.0 * np.abs(t - p) / np.maximum(np.abs(t) + np.abs(p), eps)))

    def mape(t, p):
        return float(np.mean(np.abs(t - p) / np.maximum(np.abs(t), eps)))
    table = {None: smape, "smape": smape, "mape": mape,
             "mse": lambda t, p: float(np.mean((t - p) ** 2)),
             "rmse": lambda t, p: float(np.sqrt(np.mean((t - p) ** 2))),
             "asym": _asym, "rel_true": _rel_true, "neg_mae": _neg_mae, "skill": _skill,
             "asym_np": _asym, "skill_np": _skill,
             "asym_class": lambda t, p: float(np.mean(np.where(t - p < 0, (t - p) ** 2, np.abs(t - p)))),
             "corr": _corr, "nan_mae": _nan_mae}
    f = table[name]
    return lambda y_true, y_pred: f(np.asarray(y_true, float), np.asarray(y_pred, float))


ORDER_SENSITIVE = {"mape", "asym", "rel_true", "skill"}
GREATER = {"neg_mae", "skill", "corr", "skill_np"}


# ------------------------------------------------------------------ generation
def _gen_cv(rng, n, max_h=4):
    steps = sorted(rng.sample(range(1, max_h + 1), rng.randint(1, min(3, max_h))))
    t = rng.choice(["sliding", "sliding", "expanding", "single"])
    w = rng.randint(3, max(3, n // 2))
    cv = {"type": t, "window": w, "step": rng.choice([1, 2, 3, 5]), "fh": steps,
          "start_with_window": True}
    if t == "sliding" and rng.random() < 0.25:
        cv["initial"] = min(n - max(steps) - 1, w + rng.randint(1, 4))
    return cv


def generate(prop, rng, tier):
    big = tier == "thorough"
    if prop == "C07":
        n = rng.randint(14, 40 if not big else 90)
        spec = C.gen_leaf(rng, allow_slow=rng.random() < 0.15, allow_reduce=True)
        if spec["kind"] == "reduce" and spec["strategy"] == "dirrec":
            spec = dict(spec, strategy="recursive", regressor="stub")
        # (direct / multioutput reductions need the horizon at fit: every fold has the same
        # steps ahead, so both strategies are valid for them)
        if rng.random() < 0.15:
            # a composite as the forecaster under evaluation
            a_ = {"kind": "naive", "strategy": rng.choice(["last", "mean"]), "sp": 1, "window_length": None}
            b_ = {"kind": "trend", "degree": 1, "with_intercept": True}
            spec = rng.choice([
                {"kind": "ensemble", "members": [a_, b_], "aggfunc": rng.choice(["mean", "median"]), "n_jobs": None},
                {"kind": "ttf", "transformers": [{"kind": "detrend", "forecaster": None}], "forecaster": a_},
                {"kind": "mux", "members": [a_, b_], "selected": rng.randrange(2)}])
        with_X = rng.random() < 0.25 and spec["kind"] in ("naive", "reduce")
        if rng.random() < 0.12:
            spec = {"kind": "xinc"}   # a peer that uses exogenous data at predict time
            with_X = True
        cv = _gen_cv(rng, n)
        need = C.min_train_len(spec, max(cv["fh"])) if spec["kind"] != "xinc" else 3
        cv["window"] = max(cv["window"], need)
        strategy = rng.choice(["refit", "refit", "update"])
        holes_ok = spec["kind"] == "naive" and spec.get("strategy") == "last" and spec.get("sp", 1) == 1
        if strategy == "update" and not holes_ok:
            cv["step"] = min(cv["step"], cv["window"])  # no holes in what the forecaster sees
        elif strategy == "update" and cv["type"] == "sliding" and rng.random() < 0.5:
            # (the simplest forecaster tolerates them: windows that leave observations out)
            cv["window"] = min(cv["window"], 4)
            cv["step"] = cv["window"] + rng.choice([1, 2])
        if cv.get("initial"):
            cv["initial"] = max(cv["initial"], cv["window"] + 1)
        n = max(n, (cv.get("initial") or cv["window"]) + max(cv["fh"]) + rng.randint(2, 9))
        metric = rng.choice([None, "smape", "mape", "mse", "rmse", "asym", "rel_true",
                             "neg_mae", "skill"])
        nan_test = []
        if spec["kind"] == "naive" and spec.get("strategy") in ("last", "mean") \
                and spec.get("sp", 1) == 1 and not with_X and rng.random() < 0.35:
            # missing observations at time points that some fold has to forecast
            metric = "nan_mae"
            first = (cv.get("initial") or cv["window"])
            nan_test = sorted(set(rng.randint(first, n - 1) for _ in range(rng.randint(1, 2))))
        if cv["type"] != "sliding" and strategy == "refit" and rng.random() < 0.3:
            # cutoffs given one by one (positions): some early ones, for which fewer observations
            # than the window exist, sometimes one of them twice
            cv = {"type": "cutoff", "window": max(cv["window"], need + 2), "step": 1, "fh": cv["fh"],
                  "start_with_window": True}
            n = max(n, cv["window"] + max(cv["fh"]) + 4)
            hi = n - max(cv["fh"]) - 1
            lo = max(1, need - 1)            # (enough observations for the forecaster in any case)
            cuts = sorted(rng.sample(range(lo, hi + 1), min(rng.randint(1, 4), hi - lo + 1)))
            if rng.random() < 0.5:
                cuts[0] = rng.randint(lo, max(lo, min(cv["window"] - 2, hi)))
                cuts = sorted(cuts)
            if rng.random() < 0.3:
                cuts = sorted(cuts + [rng.choice(cuts)])
            cv["cutoffs"] = cuts
            with_X = False
        cv["fh_as"] = rng.choice(["list", "list", "array", "object"])
        index = rng.choice(["range", "range", "int"])
        if spec["kind"] == "naive" and spec.get("strategy") == "last" and spec.get("sp", 1) == 1 \
                and spec.get("window_length") is None and not with_X and rng.random() < 0.4:
            # integer time stamps with gaps: positions and labels are different things
            index = rng.choice(["step2", "irregular"])
        return {
            "spec": spec, "cv": cv, "n": n,
            "series": {"seed": rng.randint(0, 10 ** 6), "origin": rng.choice([0, 0, 3, 50, -20]),
                       "index": index, "sp": rng.choice([2, 3, 4])},
            "strategy": strategy,
            "metric": metric, "nan_test": nan_test,
            "with_X": with_X, "return_data": rng.random() < 0.4,
            "prefit": rng.random() < 0.25,
            # the same splitter object, reconfigured, is used for a second evaluation
            "reuse_cv": rng.random() < 0.3,
            # ... or used again exactly as it is (the second table equals that of a new splitter)
            "reuse_plain": rng.random() < 0.5,
            # counts: an integer-dtype target (forecasts are not whole numbers)
            "int_values": rng.random() < 0.15,
            "fit_params": rng.random() < 0.3,
            # missing values early in the series (NaiveForecaster(last) accepts them)
            "nans": spec == {"kind": "naive", "strategy": "last", "sp": 1, "window_length": None}
            or (spec["kind"] == "naive" and spec.get("strategy") == "last" and spec.get("sp", 1) == 1
                and rng.random() < 0.6),
            "clock": {"seed": rng.randint(0, 10 ** 6), "jump_every": rng.choice([0, 0, 3, 5]),
                      "jump_hours": rng.choice([-5, -1, 2, 100])},
        }
    # ---- C08
    n = rng.randint(18, 36 if not big else 70)
    base_kind = rng.choice(["naive", "naive", "ttf", "mux", "theta", "ttf_obj", "ens_list", "ttf_big"])
    if base_kind == "naive":
        base = {"kind": "naive", "strategy": "last", "sp": 1, "window_length": None}
        grid = {"strategy": rng.sample(["last", "mean", "drift"], rng.randint(2, 3))}
        if rng.random() < 0.6:
            grid["window_length"] = rng.sample([2, 3, 4, 5, 6], rng.randint(1, 3))
        if rng.random() < 0.3:
            grid["sp"] = [1, 2]
            grid["strategy"] = [s for s in grid["strategy"] if s != "drift"] or ["last"]
            grid["window_length"] = [4, 6]
        r2 = rng.random()
        if r2 < 0.15:
            # 'last' ignores window_length: an exact tie that does not involve candidate 0
            grid = {"strategy": ["mean", "last"], "window_length": rng.sample([2, 3, 5, 6], 2)}
        elif r2 < 0.3:
            # several grids with different keys
            grid = [{"strategy": ["mean"], "window_length": rng.sample([3, 4, 8], 2)},
                    {"strategy": rng.sample(["last", "drift"], rng.randint(1, 2))}]
    elif base_kind == "theta":
        base = {"kind": "theta", "sp": 1, "deseasonalize": True}
        grid = {"sp": rng.sample([1, 2, 4], 2), "deseasonalize": [True, False]}
    elif base_kind == "ttf_obj":
        # a grid that lists a component OBJECT together with nested parameters of that component
        # (one NaiveForecaster object, listed in both sub-grids)
        base = {"kind": "ttf", "transformers": [{"kind": "deseason", "sp": 2, "model": "additive"}],
                "forecaster": {"kind": "trend", "degree": 1, "with_intercept": True}}
        grid = [{"f": ["@naive"], "f__strategy": rng.sample(["last", "mean", "drift"], 2)},
                {"f": ["@naive"], "f__strategy": ["mean"], "f__window_length": rng.sample([3, 4, 6], 2)}]
    elif base_kind == "ens_list":
        # the member LIST itself is a grid value (one list object, listed in both sub-grids),
        # next to nested parameters of its members
        base = {"kind": "ensemble", "members": [
            {"kind": "naive", "strategy": "last", "sp": 1, "window_length": None},
            {"kind": "trend", "degree": 1, "with_intercept": True}], "aggfunc": "mean", "n_jobs": None}
        grid = [{"forecasters": ["@members"], "m0__strategy": rng.sample(["mean", "drift", "last"], 2)},
                {"forecasters": ["@members"], "aggfunc": rng.sample(["mean", "median", "min"], 2)}]
    elif base_kind == "ttf_big":
        # long component objects that differ in one inner member only
        base = {"kind": "ttf", "transformers": [{"kind": "deseason", "sp": 2, "model": "additive"}],
                "forecaster": {"kind": "trend", "degree": 1, "with_intercept": True}}
        ks = rng.sample([13, 14, 15, 16], 2)
        grid = {"f": ["@big:%d" % ks[0], "@big:%d" % ks[1]] + (["@naive"] if rng.random() < 0.5 else [])}
    elif base_kind == "ttf":
        base = {"kind": "ttf", "transformers": [{"kind": "deseason", "sp": 2, "model": "additive"}],
                "forecaster": {"kind": "naive", "strategy": "last", "sp": 1, "window_length": None}}
        grid = {"t0__sp": rng.sample([1, 2, 3, 4], rng.randint(2, 3)),
                "f__strategy": rng.sample(["last", "mean", "drift"], 2)}
        if rng.random() < 0.4:
            grid["t0__model"] = ["additive", "multiplicative"]
    else:
        members = [{"kind": "naive", "strategy": "last", "sp": 1, "window_length": None},
                   {"kind": "trend", "degree": 1, "with_intercept": True},
                   {"kind": "naive", "strategy": "mean", "sp": 1, "window_length": 4}]
        if rng.random() < 0.5:
            members[0] = dict(members[2])  # two identical members: an exact tie
        base = {"kind": "mux", "members": members, "selected": 0}
        grid = {"selected_forecaster": ["m0", "m1", "m2"]}
    cv = _gen_cv(rng, n, 3)
    cv.pop("initial", None)
    cv["type"] = rng.choice(["sliding", "expanding"])
    cv["window"] = max(cv["window"], 9)
    cv["step"] = rng.choice([2, 3, 5])
    n = max(n, cv["window"] + max(cv["fh"]) + 2 * cv["step"] + 1)
    search = "grid" if rng.random() < 0.75 else "random"
    scen = {
        "base": base, "grid": grid, "search": search, "n_iter": rng.randint(2, 5),
        "search_rs": rng.randint(0, 99), "search_rs_kind": rng.choice(["int", "int", "instance"]),
        "cv": cv, "n": n,
        "series": {"seed": rng.randint(0, 10 ** 6), "origin": rng.choice([0, 0, 7, 100]),
                   "index": rng.choice(["range", "range", "int"]), "sp": rng.choice([2, 3, 4])},
        "metric": rng.choice([None, "smape", "mape", "mse", "asym", "neg_mae", "skill", "neg_mae",
                              "skill", "corr" if len(cv["fh"]) >= 2 else "skill", "asym_np", "skill_np", "asym_class"]),
        "n_jobs": rng.choice([None, 1, 2, 2, 3, 4]),
        "pre_dispatch": rng.choice([None, 1, 2, "2*n_jobs", "n_jobs"]),
        "refit": rng.random() < 0.8,
        "second_fit": rng.random() < 0.3,
        "toggle_refit": rng.random() < 0.3,
        # magnitude of the series (scale-dependent metrics on small numbers make absolute
        # tolerances bite)
        "scale": rng.choice([1.0, 1.0, 1.0, 1e-5, 1e-3, 1e4]),
        # a later fit of the same tuner whose final refit on the whole series fails
        "refit_fails": base_kind == "naive" and rng.random() < 0.3,
        # a search with exogenous data over a forecaster whose forecasts depend on the X it was
        # fitted with
        "exog_refit": base_kind == "naive" and isinstance(grid, dict) and rng.random() < 0.3,
        # the metric (and part of the grid) changed with set_params before the second fit
        "second_metric": rng.choice([None, "neg_mae", "mse", "skill", "asym"]),
        # horizon given to fit (None, or one that differs from the splitter's)
        "fit_fh": rng.choice([None, None, [1, 2, 5], [2, 3, 4, 6]]),
        "alpha": rng.choice([0.05, 0.2, 0.5]),
        "strategy": rng.choice(["refit", "refit", "update"]),
        "sched": {"mode": rng.choice(["fifo", "ooo", "interleave", "interleave"]),
                  "seed": rng.randint(0, 10 ** 6), "p": rng.choice([0.01, 0.05, 0.1, 0.3])},
        "sibling": {"n_jobs": rng.choice([None, 1, 2, 4]),
                    "mode": rng.choice(["fifo", "ooo", "interleave"]),
                    "seed": rng.randint(0, 10 ** 6)},
        "history": [rng.choice(["predict", "update", "update_nop", "update_predict", "predict",
                                "ups", "ups_nop", "update_predict_nocv", "update_revised",
                                "update_default", "ups_default"])
                    for _ in range(rng.randint(1, 4))],
        "tail": rng.randint(4, 8),
        "clock": {"seed": rng.randint(0, 10 ** 6), "jump_every": rng.choice([0, 0, 4]),
                  "jump_hours": rng.choice([-3, 50])},
    }
    if scen["metric"] == "mse" and rng.random() < 0.6:
        # a parameter OF the scorer object is changed (scoring__square_root) before a second fit
        scen["second_metric"], scen["second_fit"] = "rmse_nested", True
    return scen


# ------------------------------------------------------------------ C07
def _make_X(y, seed):
    rs = np.random.RandomState(seed)
    return pd.DataFrame({"x0": np.round(rs.normal(size=len(y)), 4),
                         "x1": np.arange(len(y), dtype=float)}, index=y.index)


def execute(prop, scen):
    peers.reset()
    C.reset_caches()
    if prop == "C07":
        return execute_c07(scen)
    return execute_c08(scen)


def execute_c07(scen):
    from sklearn.base import clone
    from sktime.forecasting.model_evaluation import evaluate
    res = RunResult()
    s = scen["series"]
    y = C.make_series(s["seed"], scen["n"], s["origin"], s["index"], sp=s["sp"])
    if scen.get("nans") and scen["cv"]["window"] >= 4 and not scen.get("prefit") \
            and scen["cv"]["type"] != "cutoff":     # (early cutoffs would make them test points)
        y.iloc[[1, 2]] = np.nan   # inside the early training windows, never last, never tested
        res.probe("missing_values_in_training_window")
    if scen.get("int_values") and not scen.get("nans") and not scen.get("nan_test"):
        y = y.round().astype("int64")
        res.probe("integer_valued_series")
    if scen.get("nan_test") and scen["cv"]["type"] != "cutoff":
        y.iloc[[p_ for p_ in scen["nan_test"] if p_ < len(y)]] = np.nan
        res.probe("missing_values_in_test_window")
    if s["index"] in ("step2", "irregular"):
        res.probe("gapped_time_stamps")
    X = _make_X(y, s["seed"] + 1) if scen["with_X"] else None
    inner = peers.XIncrementForecaster() if scen["spec"]["kind"] == "xinc" else C.build(scen["spec"])
    spy = peers.SpyForecaster(inner, tag="F")
    if scen.get("prefit"):
        # the caller's forecaster object has a past: it was already fitted on older data
        try:
            with peers.paused():
                old = C.make_series(s["seed"] + 3, 12, s["origin"] - 40, s["index"], sp=s["sp"])
                oldX = _make_X(old, s["seed"] + 4) if scen["with_X"] else None
                spy.fit(old, oldX, fh=[1])
            res.probe("prefitted_forecaster")
        except Exception:
            spy = peers.SpyForecaster(inner, tag="F")
    cv = C.build_cv(scen["cv"])
    metric = build_metric(scen["metric"])
    res.real.update(C.class_names(scen["spec"]) if scen["spec"]["kind"] != "xinc" else set())
    if scen["spec"]["kind"] == "xinc":
        res.stub.add("XIncrementForecaster (peer that consumes X at predict time)")
        res.probe("x_consuming_forecaster")
    res.real.update(["forecasting.model_evaluation.evaluate",
                     "forecasting.model_selection.%s" % type(cv).__name__])
    res.stub.update(["SpyForecaster(wrapping the real forecaster)", "SimClock(time.time)"])
    if scen["spec"]["kind"] != "xinc" and C.uses_stub(scen["spec"]):
        res.stub.add("StubRegressor")
    clock = SimClock(scen["clock"]["seed"], scen["clock"]["jump_every"], scen["clock"]["jump_hours"])
    digest = hashlib.sha256()

    def v(cls, detail, **sig):
        sig.setdefault("strategy", scen["strategy"])
        res.violate("C07." + cls, detail, **sig)

    # the splitter's own yields are the given truth
    with peers.paused():
        try:
            splits = [(np.asarray(tr), np.asarray(te)) for tr, te in C.build_cv(scen["cv"]).split(y)]
        except Exception:
            splits = None
    if not splits:
        res.digest = "nosplit"
        return res
    # the splitter agrees with itself: as many splits as it announces, at the cutoffs it reports,
    # and - where the cutoffs are given one by one, or there is one window - training windows
    # that are the `window_length` observations up to the cutoff (as many as exist)
    with peers.paused():
        try:
            fresh_cv = C.build_cv(scen["cv"])
            n_decl, cuts_decl = int(fresh_cv.get_n_splits(y)), [int(c_) for c_ in fresh_cv.get_cutoffs(y)]
        except Exception:
            n_decl = cuts_decl = None
    if any(len(tr) == 0 or len(te) == 0 for tr, te in splits):
        res.violate("C07.splitter_inconsistent", "the splitter yields an empty training or test window",
                    what="empty", splitter=scen["cv"]["type"])
        return res
    if n_decl is not None:
        res.probe("splitter_self_consistency_checked")
        if n_decl != len(splits):
            res.violate("C07.splitter_inconsistent", "the splitter announces %d splits (get_n_splits) and "
                        "yields %d" % (n_decl, len(splits)), what="n_splits", splitter=scen["cv"]["type"])
            return res
        if cuts_decl != [int(tr[-1]) for tr, _ in splits]:
            res.violate("C07.splitter_inconsistent", "the splitter reports the cutoffs %s (get_cutoffs), "
                        "its training windows end at %s" % (cuts_decl[:6], [int(tr[-1]) for tr, _ in splits][:6]),
                        what="cutoffs", splitter=scen["cv"]["type"])
            return res
        if scen["cv"]["type"] in ("cutoff", "single"):
            for tr, _ in splits:
                c_ = int(tr[-1])
                want = list(range(max(c_ - scen["cv"]["window"] + 1, 0), c_ + 1))
                if [int(t_) for t_ in tr] != want:
                    res.violate("C07.splitter_inconsistent", "window_length=%d, cutoff at position %d: the "
                                "training window is %s, the %d observations up to the cutoff are %s" % (
                                    scen["cv"]["window"], c_, [int(t_) for t_ in tr][:8], len(want), want[:8]),
                                what="window", splitter=scen["cv"]["type"])
                    return res
    if scen["cv"]["type"] == "cutoff":
        res.probe("cutoffs_given_one_by_one")
        if len(set(scen["cv"]["cutoffs"])) < len(scen["cv"]["cutoffs"]):
            res.probe("cutoff_listed_twice")
        if min(scen["cv"]["cutoffs"]) + 1 < scen["cv"]["window"]:
            res.probe("cutoff_earlier_than_window")
    sc = sched.Scheduler("fifo", 0)
    try:
        with sched.scenario_schedule(sc), patched_evaluate_clock(clock):
            extra = {"fit_params": {"spy_marker": 7}} if scen.get("fit_params") else {}
            table = evaluate(spy, cv, y, X, strategy=scen["strategy"], scoring=metric,
                             return_data=scen["return_data"], **extra)
    except Exception as e:  # noqa
        v("evaluate_raised", "evaluate raised %s: %s on a valid configuration" % (
            type(e).__name__, str(e)[:200]), exc=type(e).__name__, forecaster=scen["spec"]["kind"])
        res.digest = "raised"
        return res
    log = list(peers.CTX.log)
    res.ops = len(log)
    res.sim_time = clock.elapsed()
    if clock.went_back:
        res.probe("clock_backwards_seen")
        res.fault("clock_jump_back", clock.went_back)
    if clock.went_fwd:
        res.fault("clock_jump_fwd", clock.went_fwd)
    for k, cond in (("strategy_update", scen["strategy"] == "update"),
                    ("asymmetric_metric", scen["metric"] in ("mape", "asym")),
                    ("order_sensitive_scorer", scen["metric"] in ORDER_SENSITIVE),
                    ("with_X", scen["with_X"]), ("return_data", scen["return_data"]),
                    ("initial_window", bool(scen["cv"].get("initial"))),
                    ("windows_with_holes", scen["strategy"] == "update" and scen["cv"]["type"] == "sliding"
                     and scen["cv"]["step"] > scen["cv"]["window"]),
                    ("gapped_fh", scen["cv"]["fh"] != list(range(1, len(scen["cv"]["fh"]) + 1)))):
        if cond:
            res.probe(k)
    res.nontrivial = len(splits) >= 2 and (scen["metric"] in ORDER_SENSITIVE
                                           or scen["strategy"] == "update")
    # ---- (1) one row per split
    if len(table) != len(splits):
        v("row_count", "evaluate returned %d rows for %d splits of the splitter" % (
            len(table), len(splits)))
        res.digest = short_hash([len(table)])
        return res
    metric_obj = metric if metric is not None else build_metric("smape")
    nan_ok = scen["metric"] == "nan_mae"   # a fold whose forecasts/observations are all missing
    score_col = [c for c in table.columns if c.startswith("test_")]
    if len(score_col) != 1:
        v("score_column", "expected one test_<metric> column, found %s" % list(table.columns))
        return res
    score_col = score_col[0]
    # ---- (2) the recorded history: fit/update then exactly one predict per fold
    calls = [r for r in log if r["tag"] == "F" and r["m"] in ("fit", "update", "predict")]
    exp_seq = []
    for i in range(len(splits)):
        exp_seq.append("fit" if (i == 0 or scen["strategy"] == "refit") else "update")
        exp_seq.append("predict")
    if [c["m"] for c in calls] != exp_seq:
        v("call_sequence", "forecaster received %s, an honest %s evaluation is %s" % (
            [c["m"] for c in calls][:8], scen["strategy"], exp_seq[:8]))
        return res
    max_seen = None
    for i, (tr, te) in enumerate(splits):
        row = table.iloc[i]
        c_fit, c_pred = calls[2 * i], calls[2 * i + 1]
        y_train, y_test = y.iloc[tr], y.iloc[te]
        lab = lambda t: int(t)  # noqa
        # training window handed over == exactly the split's window
        info = c_fit["y"]
        exp_info = peers._series_info(y_train)
        if info != exp_info:
            v("wrong_training_window", "fold %d: %s received y[%s..%s] (n=%s), the split's "
              "training window is y[%s..%s] (n=%d)" % (
                  i, c_fit["m"], info.get("first"), info.get("last"), info.get("n"),
                  exp_info["first"], exp_info["last"], exp_info["n"]), fold="first" if i == 0 else "later")
            return res
        # exogenous data: the rows of the training window at fit AND at every update; the rows
        # from the cutoff to the last test point at predict
        if X is not None:
            res.probe("exogenous_windows_checked")
            exp_x = peers._series_info(X.iloc[tr])
            if c_fit.get("X") != exp_x:
                v("wrong_exogenous_window", "fold %d: %s received X %s, the split's training rows are "
                  "X[%s..%s] (n=%d)" % (i, c_fit["m"], c_fit.get("X") and (c_fit["X"].get("first"),
                                                                           c_fit["X"].get("last"),
                                                                           c_fit["X"].get("n")),
                                        exp_x["first"], exp_x["last"], exp_x["n"]), call=c_fit["m"])
                return res
            exp_xt = peers._series_info(X.iloc[tr[-1] + 1: te[-1] + 1])
            if c_pred.get("X") != exp_xt:
                v("wrong_exogenous_window", "fold %d: predict received X %s, the rows from the cutoff "
                  "to the last test point are X[%s..%s] (n=%d)" % (
                      i, c_pred.get("X") and (c_pred["X"].get("first"), c_pred["X"].get("last"),
                                              c_pred["X"].get("n")),
                      exp_xt["first"], exp_xt["last"], exp_xt["n"]), call="predict")
                return res
        # the caller's fit parameters reach every fit, not only the first
        if scen.get("fit_params") and c_fit["m"] == "fit":
            res.probe("fit_params_checked")
            if c_fit.get("fit_params") != {"spy_marker": 7}:
                v("fit_params_dropped", "fold %d: fit received fit_params %s, evaluate was given "
                  "{'spy_marker': 7}" % (i, c_fit.get("fit_params")), fold="first" if i == 0 else "later")
                return res
        # no-leak: nothing at or after the first test point before the prediction
        first_test = lab(y_test.index[0])
        for c in calls[:2 * i + 1]:
            if c["m"] == "predict":
                continue  # exogenous values for a horizon are inputs of that forecast
            for key in ("y", "X"):
                if c.get(key) and c[key].get("n") and c[key]["last"] >= first_test:
                    v("future_leak", "fold %d: before predicting %s.. the forecaster was given %s "
                      "up to time %s via %s" % (i, first_test, key, c[key]["last"], c["m"]),
                      via=key)
                    return res
        res.probe("no_leak_checked")
        # predict horizon == exactly the test time points
        fhv = c_pred["fh"]["v"] if c_pred.get("fh") else None
        if fhv is not None and c_pred["fh"]["rel"]:
            # steps ahead of the fold's cutoff denote the same time points
            fhv = [lab(y_train.index[-1]) + int(s_) for s_ in fhv]
        if fhv != [lab(t) for t in y_test.index]:
            v("wrong_horizon", "fold %d: predict was asked for %s, the split's test points are %s"
              % (i, fhv, [lab(t) for t in y_test.index]))
            return res
        if row["cutoff"] != y.index[tr[-1]]:
            v("wrong_cutoff", "fold %d: table cutoff %s, split cutoff %s" % (
                i, row["cutoff"], y.index[tr[-1]]))
            return res
        if int(row["len_train_window"]) != len(tr):
            v("wrong_len_train_window", "fold %d: table len_train_window %s, split has %d" % (
                i, row["len_train_window"], len(tr)))
            return res
        # score == metric(y_true, y_pred) on the recorded prediction, named arguments
        y_pred = pd.Series(c_pred["out"], index=y_test.index)
        exp_score = float(metric_obj(y_true=y_test, y_pred=y_pred))
        got = float(row[score_col])
        if not np.isclose(got, exp_score, rtol=1e-9, atol=1e-12, equal_nan=nan_ok):
            swapped = float(metric_obj(y_true=y_pred, y_pred=y_test))
            v("wrong_score", "fold %d: table score %.10g, metric(y_true, y_pred) = %.10g%s" % (
                i, got, exp_score, " (it equals metric(y_pred, y_true))"
                if np.isclose(got, swapped) else ""), metric=str(scen["metric"]),
                swapped=bool(np.isclose(got, swapped)))
            return res
        raw = raw_metric(scen["metric"])(y_test.values, y_pred.values)
        res.probe("raw_metric_checked")
        if not np.isclose(got, raw, rtol=1e-9, atol=1e-12, equal_nan=nan_ok):
            v("wrong_score", "fold %d: table score %.10g, the metric's definition applied to "
              "(y_true, y_pred) gives %.10g" % (i, got, raw), metric=str(scen["metric"]), raw=True)
            return res
        if scen["return_data"]:
            for col, exp in (("y_train", y_train), ("y_test", y_test), ("y_pred", y_pred)):
                if not C.same_series(row[col], exp):
                    v("wrong_returned_data", "fold %d: column %s is not the fold's %s" % (i, col, col))
                    return res
        digest.update(repr((i, round(got, 10), c_pred["out"])).encode())
    # ---- (3) honest recomputation on a fresh clone of the real forecaster
    with peers.paused():
        try:
            g = clone(inner)
            for i, (tr, te) in enumerate(splits):
                y_train, y_test = y.iloc[tr], y.iloc[te]
                X_train = X.iloc[tr] if X is not None else None
                fh = ForecastingHorizonAbs(y_test.index)
                if i == 0 or scen["strategy"] == "refit":
                    g = clone(inner)
                    g.fit(y_train, X_train, fh=fh)
                else:
                    g.update(y_train, X_train)
                X_test = None
                if X is not None:
                    X_test = X.iloc[tr[-1] + 1: te[-1] + 1]
                p = g.predict(fh, X=X_test)
                exp_score = float(metric_obj(y_true=y_test, y_pred=p))
                got = float(table.iloc[i][score_col])
                res.probe("honest_recomputation_checked")
                if not np.isclose(got, exp_score, rtol=1e-9, atol=1e-12, equal_nan=nan_ok):
                    v("differs_from_honest_recomputation",
                      "fold %d: table score %.10g, a fresh clone fitted%s on the split gives %.10g"
                      % (i, got, "/updated" if scen["strategy"] == "update" else "", exp_score),
                      metric=str(scen["metric"]))
                    break
        except Exception as e:  # noqa
            digest.update(b"honest_raised")
    # ---- the same splitter object, reconfigured, used again: the second table follows the
    # splitter as it is now
    if scen.get("reuse_cv") and not res.violations and hasattr(cv, "step_length"):
        try:
            if scen.get("reuse_plain"):
                # used again as it is: what a newly built splitter of the same arguments yields
                res.probe("splitter_object_reused_unchanged")
                with peers.paused():
                    splits2 = [(np.asarray(tr), np.asarray(te))
                               for tr, te in C.build_cv(scen["cv"]).split(y)]
            else:
                cv.step_length = cv.step_length % 3 + 1
                old_fh = [int(x) for x in np.atleast_1d(cv.fh)]
                cv.fh = [s_ + 1 for s_ in old_fh] if max(old_fh) + 1 + scen["cv"]["window"] < len(y) else old_fh
                with peers.paused():
                    splits2 = [(np.asarray(tr), np.asarray(te)) for tr, te in cv.split(y)]
            peers.CTX.log = []
            with sched.scenario_schedule(sched.Scheduler("fifo", 0)), patched_evaluate_clock(SimClock(9)):
                table2 = evaluate(peers.SpyForecaster(inner, tag="F"), cv, y, X, strategy="refit",
                                  scoring=metric)
            res.probe("splitter_object_reused")
            if len(table2) != len(splits2):
                v("row_count", "second evaluation with the reconfigured splitter object returned %d "
                  "rows, the splitter now has %d splits" % (len(table2), len(splits2)), reused=True)
            else:
                preds2 = [r for r in peers.CTX.log if r["tag"] == "F" and r["m"] == "predict"]
                for i2, (tr, te) in enumerate(splits2):
                    if table2.iloc[i2]["cutoff"] != y.index[tr[-1]]:
                        v("wrong_cutoff", "second evaluation, fold %d: table cutoff %s, split cutoff %s"
                          % (i2, table2.iloc[i2]["cutoff"], y.index[tr[-1]]), reused=True)
                        break
                    fhv2 = preds2[i2]["fh"]["v"] if i2 < len(preds2) and preds2[i2].get("fh") else None
                    if fhv2 is not None and preds2[i2]["fh"]["rel"]:
                        fhv2 = [int(y.index[tr[-1]]) + int(s_) for s_ in fhv2]
                    if fhv2 != [int(t) for t in y.index[te]]:
                        v("wrong_horizon", "second evaluation, fold %d: predict was asked for %s, the "
                          "split's test points are %s" % (i2, fhv2, [int(t) for t in y.index[te]]),
                          reused=True)
                        break
        except Exception as e:  # noqa
            digest.update(("reuse:%s" % type(e).__name__).encode())
    res.digest = digest.hexdigest()[:16]
    res.states.add(short_hash([len(splits), scen["strategy"]]))
    return res


def ForecastingHorizonAbs(index):
    from sktime.forecasting.base import ForecastingHorizon
    return ForecastingHorizon(index, is_relative=False)


# ------------------------------------------------------------------ C08
def _mat_grid(grid):
    """The grid as the user writes it: the marker "@naive" stands for ONE NaiveForecaster
    object that the user lists (possibly in several sub-grids), "@members" for ONE list of
    (name, forecaster) pairs, "@big:k" for an ensemble of 30 members of which only member k
    differs from the others."""
    if '"@' not in json.dumps(grid):
        return grid
    from sktime.forecasting.compose import EnsembleForecaster
    from sktime.forecasting.naive import NaiveForecaster
    from sktime.forecasting.trend import PolynomialTrendForecaster
    obj = NaiveForecaster()
    members = [("m0", NaiveForecaster()), ("m1", PolynomialTrendForecaster(degree=1)),
               ("m2", NaiveForecaster(strategy="mean", window_length=4))]

    def one(x):
        if x == "@naive":
            return obj
        if x == "@members":
            return members
        if isinstance(x, str) and x.startswith("@big:"):
            k = int(x[5:])
            return EnsembleForecaster([("e%d" % i, NaiveForecaster(strategy="mean", window_length=3)
                                        if i == k else NaiveForecaster()) for i in range(30)])
        return x

    def sub(v):
        return [one(x) for x in v]
    if isinstance(grid, list):
        return [{k: sub(v) for k, v in g.items()} for g in grid]
    return {k: sub(v) for k, v in grid.items()}


def _okey(v):
    """Comparable form of a parameter value: objects by class and (deep) parameters."""
    if hasattr(v, "get_params"):
        return [type(v).__name__, sorted((k, _okey(x)) for k, x in v.get_params(deep=False).items())]
    if isinstance(v, (list, tuple)):
        return [_okey(x) for x in v]
    return v


def _fresh(params):
    """A candidate with private copies of its object-valued entries (set_params writes nested
    `name__param` settings into the very objects it is given)."""
    from sklearn.base import clone
    return {k: (clone(v, safe=False) if hasattr(v, "get_params") or isinstance(v, list) else v)
            for k, v in params.items()}


def _pkey(params):
    """Comparable form of a candidate."""
    return {k: _okey(v) for k, v in params.items()}


def _candidates(scen):
    """The candidate list, each candidate with its own fresh copies of estimator values."""
    from sklearn.base import clone
    from sklearn.model_selection import ParameterGrid, ParameterSampler
    grid = _mat_grid(scen["grid"])
    if scen["search"] == "grid":
        cands = list(ParameterGrid(grid))
    else:
        cands = list(ParameterSampler(grid, scen["n_iter"], random_state=_search_rs(scen)))
    return [{k: (clone(v, safe=False) if hasattr(v, "get_params") or isinstance(v, list) else v)
             for k, v in c.items()} for c in cands]


def _search_rs(scen):
    """random_state as the user passes it: an int, or a (fresh) RandomState instance."""
    if scen.get("search_rs_kind") == "instance":
        return np.random.RandomState(scen["search_rs"])
    return scen["search_rs"]


def _make_tuner(scen, n_jobs, pre_dispatch="same"):
    from sktime.forecasting.model_selection import (
        ForecastingGridSearchCV, ForecastingRandomizedSearchCV)
    base = C.build(scen["base"])
    if scen.get("refit_fails") and scen["base"]["kind"] == "naive":
        # same forecaster, with a data-triggered fault for a later fit (see execute_c08)
        base = peers.FailingNaive(strategy=base.strategy, window_length=base.window_length, sp=base.sp,
                                  fail_len=scen["n"] + 3)
    cv = C.build_cv(scen["cv"])
    metric = build_metric(scen["metric"])
    pd_ = scen["pre_dispatch"] if pre_dispatch == "same" else pre_dispatch
    kw = dict(n_jobs=n_jobs, refit=scen["refit"], scoring=metric, strategy=scen["strategy"])
    if pd_ is not None:
        kw["pre_dispatch"] = pd_
    if scen["search"] == "grid":
        return ForecastingGridSearchCV(base, cv, _mat_grid(scen["grid"]), **kw)
    return ForecastingRandomizedSearchCV(base, cv, _mat_grid(scen["grid"]), n_iter=scen["n_iter"],
                                         random_state=_search_rs(scen), **kw)


def _honest_mean(scen, params, y):
    """Mean over the folds of the metric's definition applied to the forecasts of a clone
    fitted (strategy refit) or fitted once and updated (strategy update) on each fold."""
    from sklearn.base import clone
    raw = raw_metric(scen["metric"])
    base = clone(C.build(scen["base"])).set_params(**_fresh(params))
    scores = []
    g = None
    for i, (tr, te) in enumerate(C.build_cv(scen["cv"]).split(y)):
        y_train, y_test = y.iloc[tr], y.iloc[te]
        fh = ForecastingHorizonAbs(y_test.index)
        if i == 0 or scen["strategy"] == "refit":
            g = clone(base)
            g.fit(y_train, fh=fh)
        else:
            g.update(y_train)
        scores.append(raw(y_test.values, g.predict(fh).values))
    # (folds on which the metric is undefined are left out of the mean, as evaluate's table
    # mean does; the property does not say how they count)
    sc = np.asarray(scores, float)
    return float(np.mean(sc[~np.isnan(sc)])) if (~np.isnan(sc)).any() else float("nan")


def _all_undefined(scen, y):
    from sklearn.base import clone
    from sktime.forecasting.model_evaluation import evaluate
    with peers.paused(), sched.scenario_schedule(sched.Scheduler("fifo", 0)):
        for params in _candidates(scen):
            try:
                t = evaluate(clone(C.build(scen["base"])).set_params(**_fresh(params)), C.build_cv(scen["cv"]),
                             y, strategy=scen["strategy"], scoring=build_metric(scen["metric"]))
                col = [c for c in t.columns if c.startswith("test_")][0]
                if not np.isnan(float(t[col].mean())):
                    return False
            except Exception:
                return False
    return True


def execute_c08(scen):
    from sklearn.base import clone
    from sktime.exceptions import NotFittedError
    from sktime.forecasting.model_evaluation import evaluate
    res = RunResult()
    s = scen["series"]
    tail_len = scen["tail"] + 19 * scen["history"].count("update_predict_nocv")
    y_all = C.make_series(s["seed"], scen["n"] + tail_len + 4, s["origin"], s["index"], sp=s["sp"])
    if scen.get("scale", 1.0) != 1.0:
        y_all = y_all * scen["scale"]
        res.probe("rescaled_series")
    y = y_all.iloc[:scen["n"]]
    digest = hashlib.sha256()
    res.real.update(C.class_names(scen["base"]))
    res.real.update(["forecasting.model_selection.Forecasting%sSearchCV" % (
        "Grid" if scen["search"] == "grid" else "Randomized"),
        "forecasting.model_evaluation.evaluate"])
    res.stub.update(["joblib backend: simkit SimBackend", "SimClock(time.time)"])

    def v(cls, detail, **sig):
        sig.setdefault("base", scen["base"]["kind"])
        res.violate("C08." + cls, detail, **sig)

    clock = SimClock(scen["clock"]["seed"], scen["clock"]["jump_every"], scen["clock"]["jump_hours"])
    tuner = _make_tuner(scen, scen["n_jobs"])
    sc = sched.Scheduler(scen["sched"]["mode"], scen["sched"]["seed"], scen["sched"]["p"])
    try:
        with sched.scenario_schedule(sc), patched_evaluate_clock(clock):
            out = tuner.fit(y, fh=scen.get("fit_fh"))
    except Exception as e:  # noqa
        res.sched = sc.stats()
        if scen["metric"] == "corr" and _all_undefined(scen, y):
            res.probe("all_scores_undefined")   # nothing to select from: nothing is demanded
            res.digest = "undefined"
            return res
        v("fit_raised", "tuner.fit raised %s: %s on a valid configuration" % (
            type(e).__name__, str(e)[:200]), exc=type(e).__name__)
        res.digest = "raised"
        return res
    res.sched = sc.stats()
    res.sim_time = clock.elapsed()
    if clock.went_back:
        res.fault("clock_jump_back", clock.went_back)
    if clock.went_fwd:
        res.fault("clock_jump_fwd", clock.went_fwd)
    if sc.n_tasks:
        res.fault("schedule_interleave" if sc.mode == "interleave" else
                  "schedule_ooo" if sc.mode == "ooo" else "schedule_fifo", sc.n_tasks)
        if sc.mode == "interleave":
            res.probe("interleave_schedule")
        if scen["pre_dispatch"] not in (None, "2*n_jobs"):
            res.probe("pre_dispatch_window")
    metric = build_metric(scen["metric"])
    greater = scen["metric"] in GREATER
    if greater:
        res.probe("greater_is_better")
    grids = scen["grid"] if isinstance(scen["grid"], list) else [scen["grid"]]
    if any("__" in k for g in grids for k in g):
        res.probe("nested_param_names")
    if isinstance(scen["grid"], list):
        res.probe("list_of_grids")
    if '"@naive"' in json.dumps(scen["grid"]):
        res.probe("grid_with_component_objects")
    if '"@members"' in json.dumps(scen["grid"]):
        res.probe("grid_with_member_list")
    if '"@big:' in json.dumps(scen["grid"]):
        res.probe("grid_with_long_objects")
    if scen["search"] == "random" and scen.get("search_rs_kind") == "instance":
        res.probe("random_state_instance")
    if scen["base"]["kind"] == "mux":
        res.probe("multiplexer_grid")
    if scen["search"] == "random":
        res.probe("randomized_search")
    cands = _candidates(scen)
    table = tuner.cv_results_
    res.ops = len(cands)
    # ---- candidate list
    got_params = list(table["params"])
    if [_pkey(g_) for g_ in got_params] != [_pkey(c_) for c_ in cands]:
        v("candidate_list", "cv_results_ params %s... are not the %s candidates %s..." % (
            got_params[:3], scen["search"], cands[:3]))
        res.digest = "cands"
        return res
    mean_col = [c for c in table.columns if c.startswith("mean_test_")]
    if len(mean_col) != 1:
        v("score_column", "columns %s" % list(table.columns))
        return res
    mean_col = mean_col[0]
    # ---- each row == an independent sequential evaluate of that candidate
    exp_means = []
    with peers.paused():
        s2 = sched.Scheduler("fifo", 0)
        with sched.scenario_schedule(s2):
            for params in cands:
                f = clone(C.build(scen["base"])).set_params(**_fresh(params))
                try:
                    t = evaluate(f, C.build_cv(scen["cv"]), y, strategy=scen["strategy"],
                                 scoring=build_metric(scen["metric"]))
                    col = [c for c in t.columns if c.startswith("test_")][0]
                    exp_means.append(float(t[col].mean()))
                except Exception as e:  # noqa
                    exp_means.append(None)
    for i, (params, em) in enumerate(zip(cands, exp_means)):
        if em is None:
            continue
        got = float(table.iloc[i][mean_col])
        if not np.isclose(got, em, rtol=1e-9, atol=1e-12, equal_nan=True):
            v("row_differs_from_independent_evaluate",
              "candidate %d %s: cv_results_ mean %.10g, an independent evaluate() of a clone "
              "gives %.10g" % (i, params, got, em), mode=scen["sched"]["mode"],
              parallel=bool(sc.n_tasks))
            res.digest = "rows"
            return res
    # ... and the mean over the folds of the metric's own definition (not the repo's scorer
    # object) applied to honest per-fold forecasts
    with peers.paused(), sched.scenario_schedule(sched.Scheduler("fifo", 0)):
        for i, params in enumerate(cands[:4]):
            try:
                hm = _honest_mean(scen, params, y)
            except Exception:
                continue
            res.probe("raw_metric_checked")
            got = float(table.iloc[i][mean_col])
            if not np.isclose(got, hm, rtol=1e-9, atol=1e-12, equal_nan=True):
                v("row_differs_from_metric_definition", "candidate %d %s: cv_results_ mean %.10g, the "
                  "metric's definition applied to honest per-fold forecasts gives %.10g" % (
                      i, params, got, hm), metric=str(scen["metric"]))
                res.digest = "rows_raw"
                return res
    digest.update(repr([round(float(x), 10) for x in table[mean_col]]).encode())
    # ---- best candidate in the metric's declared direction
    means = np.asarray(table[mean_col], dtype=float)
    if np.isnan(means).any():
        # a candidate whose score is undefined is never "the best"; when no candidate has a
        # defined score there is nothing to select and nothing is demanded
        res.probe("undefined_candidate_score")
        if np.isnan(means).all():
            res.digest = digest.hexdigest()[:16]
            return res
    best = np.nanmax(means) if greater else np.nanmin(means)
    n_best = int(np.sum(np.isclose(means, best, rtol=1e-12, atol=1e-15)))
    if n_best > 1:
        res.probe("tie_in_best_score")
        if not np.isclose(means[0], best, rtol=1e-12, atol=1e-15):
            res.probe("tie_not_involving_first")
    bi = int(tuner.best_index_)
    if not np.isclose(means[bi], best, rtol=1e-12, atol=1e-15):
        v("best_is_not_best", "best_index_=%d has mean %s %.10g but candidate %d attains %.10g "
          "(%s is better)" % (bi, mean_col, means[bi], int(np.argmax(means) if greater else
                                                            np.argmin(means)), best,
                              "greater" if greater else "lower"),
          direction="greater" if greater else "lower")
        res.digest = "best"
        return res
    if not np.isclose(float(tuner.best_score_), means[bi]) or _pkey(tuner.best_params_) != _pkey(cands[bi]):
        v("best_attributes_inconsistent", "best_score_/best_params_ do not belong to row best_index_")
        return res
    # ---- sibling with another n_jobs / schedule: identical table
    sib = _make_tuner(scen, scen["sibling"]["n_jobs"])
    s3 = sched.Scheduler(scen["sibling"]["mode"], scen["sibling"]["seed"], scen["sched"]["p"])
    try:
        with sched.scenario_schedule(s3), patched_evaluate_clock(SimClock(1)):
            sib.fit(y)
        res.probe("sibling_schedule_checked")
        a = np.asarray(table[mean_col], float)
        b = np.asarray(sib.cv_results_[mean_col], float)
        if not (a.shape == b.shape and np.array_equal(a, b, equal_nan=True)) or \
                int(sib.best_index_) != bi and n_best == 1:
            v("depends_on_schedule", "cv_results_ differ between n_jobs=%s/%s and n_jobs=%s/%s" % (
                scen["n_jobs"], scen["sched"]["mode"], scen["sibling"]["n_jobs"],
                scen["sibling"]["mode"]))
            return res
    except Exception as e:  # noqa
        v("fit_raised", "sibling tuner.fit raised %s: %s" % (type(e).__name__, str(e)[:200]),
          exc=type(e).__name__)
        return res
    res.nontrivial = (sc.n_tasks >= 2 and sc.mode != "fifo" and len(cands) >= 2) or scen["refit"]
    # ---- the same tuner object fitted again with a reconfigured grid: rows must still be
    # those of independent evaluations of clones of the *configured* forecaster
    if scen.get("second_fit") and scen["search"] == "grid" and isinstance(scen["grid"], dict) \
            and len(scen["grid"]) >= 2:
        drop = sorted(scen["grid"])[-1]
        grid2 = {k: v for k, v in scen["grid"].items() if k != drop}
        from sklearn.model_selection import ParameterGrid
        cands2 = list(ParameterGrid(grid2))
        s4 = sched.Scheduler(scen["sched"]["mode"], scen["sched"]["seed"] + 17, scen["sched"]["p"])
        metric2 = scen.get("second_metric")
        nested_metric_param = metric2 == "rmse_nested" and scen["metric"] == "mse"
        if metric2 == scen["metric"] or scen["metric"] == "corr" or metric2 == "rmse_nested":
            metric2 = None
        m2name = metric2 if metric2 is not None else scen["metric"]
        if nested_metric_param:
            m2name = "rmse"    # the scorer object is kept, one of ITS parameters is changed
        try:
            with sched.scenario_schedule(s4), patched_evaluate_clock(SimClock(3)):
                if nested_metric_param:
                    tuner.set_params(param_grid=grid2, scoring__square_root=True)
                    res.probe("metric_parameter_changed_before_second_fit")
                elif metric2 is not None:
                    # (the metric is reconfigured as well: ranking follows the new metric)
                    tuner.set_params(param_grid=grid2, scoring=build_metric(metric2))
                    res.probe("metric_changed_before_second_fit")
                else:
                    tuner.set_params(param_grid=grid2)
                tuner.fit(y)
            res.probe("second_fit_other_grid")
            t2 = tuner.cv_results_
            mean_col2 = [c for c in t2.columns if c.startswith("mean_test_")]
            want_col = "mean_test_" + build_metric(m2name if m2name is not None else "smape").name
            if mean_col2 != [want_col]:
                v("score_column", "second fit scored with %s: cv_results_ has %s, expected %s" % (
                    m2name, mean_col2, want_col), second=True)
                res.digest = "second"
                return res
            means2 = np.asarray(t2[want_col], float)
            if not np.isnan(means2).any():
                best2 = means2.max() if m2name in GREATER else means2.min()
                if not np.isclose(means2[int(tuner.best_index_)], best2, rtol=1e-12, atol=1e-15):
                    v("best_is_not_best", "second fit scored with %s: best_index_=%d has mean %.10g, the "
                      "best is %.10g" % (m2name, int(tuner.best_index_), means2[int(tuner.best_index_)],
                                         best2), direction="greater" if m2name in GREATER else "lower",
                      second=True)
                    res.digest = "second"
                    return res
            with peers.paused():
                s5 = sched.Scheduler("fifo", 0)
                with sched.scenario_schedule(s5):
                    for i2, params in enumerate(cands2):
                        f = clone(C.build(scen["base"])).set_params(**_fresh(params))
                        try:
                            t = evaluate(f, C.build_cv(scen["cv"]), y, strategy=scen["strategy"],
                                         scoring=build_metric(m2name))
                        except Exception:
                            continue
                        col = [c for c in t.columns if c.startswith("test_")][0]
                        em = float(t[col].mean())
                        got = float(t2.iloc[i2][want_col])
                        if not np.isclose(got, em, rtol=1e-9, atol=1e-12, equal_nan=True):
                            v("second_fit_row_differs", "second fit (grid without %r), candidate %s: "
                              "cv_results_ mean %.10g, an independent evaluate() of a clone of the "
                              "configured forecaster gives %.10g" % (drop, params, got, em))
                            res.digest = "second"
                            return res
            # restore the first configuration and its results for the rest of the scenario
            with sched.scenario_schedule(sched.Scheduler("fifo", 0)), patched_evaluate_clock(SimClock(4)):
                tuner.set_params(param_grid=scen["grid"], scoring=build_metric(scen["metric"]))
                tuner.fit(y, fh=scen.get("fit_fh"))
        except Exception as e:  # noqa
            if scen["metric"] == "corr" and _all_undefined(dict(scen, grid=grid2, search="grid"), y):
                res.probe("all_scores_undefined")
                res.digest = "undefined"
                return res
            v("fit_raised", "second tuner.fit raised %s: %s" % (type(e).__name__, str(e)[:200]),
              exc=type(e).__name__)
            return res
    # ---- refit / no refit
    if out is not tuner:
        v("fit_not_self", "fit did not return the tuner")
    tail = y_all.iloc[scen["n"]:scen["n"] + tail_len]
    if not scen["refit"]:
        res.probe("refit_false")
        for name, call in (("predict", lambda: tuner.predict([1, 2])),
                           ("update", lambda: tuner.update(tail)),
                           ("update_predict", lambda: tuner.update_predict(tail)),
                           ("update_predict_single", lambda: tuner.update_predict_single(tail, fh=[1])),
                           ("cutoff", lambda: tuner.cutoff),
                           ("score", lambda: tuner.score(tail, fh=[1, 2])),
                           ("transform", lambda: tuner.transform(tail))):
            try:
                call()
                v("no_refit_method_worked", "%s returned a result although refit=False" % name,
                  method=name)
            except NotFittedError:
                pass
            except AttributeError as e:
                if name == "transform":  # only offered when the forecaster has it
                    continue
                v("no_refit_wrong_error", "%s raised AttributeError instead of NotFittedError: %s"
                  % (name, str(e)[:100]), method=name)
            except Exception as e:  # noqa
                v("no_refit_wrong_error", "%s raised %s instead of NotFittedError: %s" % (
                    name, type(e).__name__, str(e)[:100]), method=name, exc=type(e).__name__)
        if scen.get("toggle_refit") and not res.violations:
            # the flag alone is switched on afterwards: the search was still run without a refit,
            # no best forecaster has been fitted, and nothing may answer as if one had
            tuner.set_params(refit=True)
            res.probe("refit_flag_switched_on_without_fit")
            for name, call in (("predict", lambda: tuner.predict([1, 2])),
                               ("update", lambda: tuner.update(tail)),
                               ("cutoff", lambda: tuner.cutoff),
                               ("update_predict_single", lambda: tuner.update_predict_single(tail, fh=[1]))):
                try:
                    out_ = call()
                    v("no_refit_method_worked", "fitted with refit=False, then set_params(refit=True) "
                      "without a new fit: %s returned %r" % (name, out_), method=name, flag_only=True)
                    break
                except NotFittedError:
                    pass
                except Exception as e:  # noqa
                    v("no_refit_wrong_error", "fitted with refit=False, then set_params(refit=True) "
                      "without a new fit: %s raised %s instead of NotFittedError" % (
                          name, type(e).__name__), method=name, exc=type(e).__name__, flag_only=True)
                    break
        res.digest = digest.hexdigest()[:16]
        return res
    # lock-step: the tuner vs a forecaster constructed directly with the best parameters
    direct = clone(C.build(scen["base"])).set_params(**_fresh(cands[bi]))
    with peers.paused():
        direct.fit(y, fh=scen.get("fit_fh"))
    pos = 0
    fh = scen["cv"]["fh"]
    if scen.get("fit_fh"):
        # the horizon given to fit is the one a later predict() without arguments answers
        try:
            a, b = tuner.predict(), direct.predict()
            res.probe("fit_horizon_remembered")
            if not C.same_series(a, b):
                v("tuner_differs_from_best_forecaster", "fit(y, fh=%s) then predict(): tuner gives "
                  "%s, a forecaster built with best_params_ gives %s" % (
                      scen["fit_fh"], C.fmt(a), C.fmt(b)), op="predict_remembered_fh")
                res.digest = digest.hexdigest()[:16]
                return res
        except Exception as e:  # noqa
            v("refit_history_raised", "predict() after fit(y, fh) raised %s: %s" % (
                type(e).__name__, str(e)[:150]), op="predict_remembered_fh", exc=type(e).__name__)
            return res
    if scen["base"]["kind"] == "theta":
        # prediction intervals at a non-default level are delegated with all their arguments
        try:
            a = tuner.predict(fh, return_pred_int=True, alpha=scen.get("alpha", 0.05))
            b = direct.predict(fh, return_pred_int=True, alpha=scen.get("alpha", 0.05))
            res.probe("prediction_intervals_checked")
            if not (C.same_series(a[0], b[0]) and np.allclose(
                    np.asarray(a[1], float), np.asarray(b[1], float), equal_nan=True)):
                v("tuner_differs_from_best_forecaster", "predict(return_pred_int=True, alpha=%s): "
                  "the tuner's intervals %s differ from the best forecaster's %s" % (
                      scen.get("alpha"), np.round(np.asarray(a[1], float)[:2], 4).tolist(),
                      np.round(np.asarray(b[1], float)[:2], 4).tolist()), op="predict_interval")
                res.digest = digest.hexdigest()[:16]
                return res
        except Exception as e:  # noqa
            v("refit_history_raised", "predict(return_pred_int=True) raised %s: %s" % (
                type(e).__name__, str(e)[:150]), op="predict_interval", exc=type(e).__name__)
            return res
    from sktime.forecasting.model_selection import SlidingWindowSplitter
    for k, op in enumerate(scen["history"]):
        # every step is made on both objects; a step that the best forecaster itself refuses
        # (e.g. its default splitter does not fit the batch, or its model cannot be refitted
        # on what update_predict left behind) must be refused by the tuner in the same way
        if op == "predict":
            def step(o):
                return o.predict(fh)
        elif op in ("update", "update_nop", "ups", "ups_nop"):
            if pos + 2 > len(tail):
                continue
            batch = tail.iloc[pos:pos + 2]
            pos += 2
            up = op in ("update", "ups")
            if op.startswith("ups"):
                # the one-step "take the new data and forecast" path
                res.probe("update_predict_single_checked")

                def step(o, batch=batch, up=up):
                    return o.update_predict_single(batch, fh=fh, update_params=up)
            else:
                def step(o, batch=batch, up=up):
                    o.update(batch, update_params=up)
                    return o.predict(fh)
        elif op in ("update_default", "ups_default"):
            # the same call with the same (few) arguments on both: whatever is left to defaults
            # must default the same way
            if pos + 2 > len(tail):
                continue
            batch = tail.iloc[pos:pos + 2]
            pos += 2
            res.probe("default_arguments_checked")
            if op == "update_default":
                def step(o, batch=batch):
                    o.update(batch)
                    return o.predict(fh)
            else:
                def step(o, batch=batch):
                    return o.update_predict_single(batch, fh=fh)
        elif op == "update_revised":
            # revised values for the two most recent time points already seen (the batch ends
            # exactly at the cutoff)
            seen_ = pd.concat([y, tail.iloc[:pos]])
            batch = seen_.iloc[-2:] + 1.0
            res.probe("revised_batch_checked")

            def step(o, batch=batch):
                o.update(batch, update_params=False)
                return o.predict(fh)
        elif op == "update_predict_nocv":
            # no splitter given: the best forecaster's own default, not the tuning splitter
            if pos + 19 > len(tail):
                continue
            batch = tail.iloc[pos:pos + 19]
            pos += 19
            res.probe("update_predict_default_splitter")

            def step(o, batch=batch):
                o.predict(fh)
                return o.update_predict(batch, update_params=False)
        else:
            if pos + 3 > len(tail):
                continue
            batch = tail.iloc[pos:pos + 3]

            def step(o, batch=batch):
                return o.update_predict(batch, SlidingWindowSplitter(fh=[1], window_length=1),
                                        update_params=False)
        outs_ = []
        for obj_ in (tuner, direct):
            try:
                outs_.append(step(obj_))
            except Exception as e_:  # noqa
                outs_.append(e_)
        a, b = outs_
        if isinstance(a, Exception) or isinstance(b, Exception):
            if type(a) is not type(b):
                v("tuner_differs_from_best_forecaster", "%s #%d: the tuner %s, a forecaster built "
                  "with best_params_ %s" % (op, k, *[("raises %s: %s" % (type(x).__name__, str(x)[:90]))
                                                    if isinstance(x, Exception) else "returns a result"
                                                    for x in (a, b)]), op=op, raised=True)
            res.probe("step_refused_by_both")
            break
        res.probe("lockstep_history_checked")
        if isinstance(a, pd.Series) and isinstance(b, pd.Series):
            ok = C.same_series(a, b)
        else:
            aa, bb = np.asarray(a, float), np.asarray(b, float)
            ok = type(a) is type(b) and aa.shape == bb.shape and np.allclose(aa, bb, equal_nan=True) \
                and (not hasattr(a, "index") or C.same_index(a.index, b.index))
        if not ok:
            v("tuner_differs_from_best_forecaster", "%s #%d: tuner gives %s, a forecaster built "
              "with best_params_ gives %s" % (op, k, C.fmt(a), C.fmt(b)), op=op)
            break
        if tuner.cutoff != direct.cutoff:
            v("tuner_cutoff_differs", "%s #%d: tuner.cutoff %s, best forecaster's %s" % (
                op, k, tuner.cutoff, direct.cutoff), op=op)
            break
        digest.update(repr((op, C.digest_obj(a))).encode())
    # ---- a search given exogenous data: the winner is refitted on the whole series WITH it
    if scen.get("exog_refit") and scen["base"]["kind"] == "naive" and isinstance(scen["grid"], dict) \
            and not res.violations and scen["metric"] != "corr":   # (corr: scores may all be undefined)
        from sktime.forecasting.model_selection import ForecastingGridSearchCV
        b0 = C.build(scen["base"])
        Xall = pd.DataFrame({"x0": np.round(np.sin(np.arange(len(y_all)) / 2.0) + 3.0, 4)}, index=y_all.index)
        Xtr, Xfut = Xall.iloc[:scen["n"]], Xall.iloc[scen["n"]:scen["n"] + max(fh)]
        try:
            with sched.scenario_schedule(sched.Scheduler(scen["sched"]["mode"], scen["sched"]["seed"] + 9,
                                                         scen["sched"]["p"])), \
                    patched_evaluate_clock(SimClock(7)):
                tx = ForecastingGridSearchCV(
                    peers.XNaive(strategy=b0.strategy, window_length=b0.window_length, sp=b0.sp),
                    C.build_cv(scen["cv"]), scen["grid"], scoring=build_metric(scen["metric"]),
                    n_jobs=scen["n_jobs"])
                tx.fit(y, Xtr)
                a_ = tx.predict(fh, X=Xfut)
            with peers.paused():
                dx = peers.XNaive(strategy=b0.strategy, window_length=b0.window_length, sp=b0.sp)
                dx.set_params(**_fresh(tx.best_params_))
                dx.fit(y, Xtr)
                b_ = dx.predict(fh, X=Xfut)
            res.probe("search_with_exogenous_data")
            if not C.same_series(a_, b_):
                v("tuner_differs_from_best_forecaster", "fit(y, X): the tuner forecasts %s, a forecaster "
                  "built with best_params_ and fitted on (y, X) forecasts %s" % (C.fmt(a_), C.fmt(b_)),
                  op="exog_refit")
        except Exception as e:  # noqa
            v("fit_raised", "search with exogenous data raised %s: %s" % (type(e).__name__, str(e)[:150]),
              exc=type(e).__name__, exog=True)
    # ---- the same tuner fitted again on a longer series, where the search succeeds but the
    # final refit raises: nothing of the earlier fit may go on answering
    if scen.get("refit_fails") and scen["base"]["kind"] == "naive" and not res.violations \
            and scen["n"] + 3 <= len(y_all):
        y2 = y_all.iloc[:scen["n"] + 3]
        failed = False
        try:
            with sched.scenario_schedule(sched.Scheduler(scen["sched"]["mode"], scen["sched"]["seed"] + 5,
                                                         scen["sched"]["p"])), \
                    patched_evaluate_clock(SimClock(6)):
                tuner.fit(y2)
        except peers.InjectedFault:
            failed = True
        except Exception as e:  # noqa
            v("fit_raised", "second fit raised %s instead of the injected fault" % type(e).__name__,
              exc=type(e).__name__)
        if failed:
            res.probe("refit_failed_on_second_fit")
            res.fault("peer_raises_in_refit")
            for name, call in (("predict", lambda: tuner.predict([1, 2])),
                               ("update", lambda: tuner.update(y_all.iloc[scen["n"] + 3:scen["n"] + 5])),
                               ("cutoff", lambda: tuner.cutoff)):
                try:
                    out_ = call()
                except NotFittedError:
                    continue
                except Exception as e:  # noqa
                    v("no_refit_wrong_error", "%s after a fit whose refit failed raised %s instead "
                      "of NotFittedError" % (name, type(e).__name__), method=name,
                      exc=type(e).__name__, after_failed_fit=True)
                    break
                if name == "cutoff" and out_ is None:
                    continue
                v("stale_forecaster_answers", "%s answered (%s) after a fit whose final refit failed: "
                  "the forecaster of the earlier fit is still in place" % (name, str(out_)[:60]),
                  method=name)
                break
            res.digest = digest.hexdigest()[:16]
            return res
    # ---- the tuner as ONE MEMBER of an ensemble, next to an ensemble that holds a forecaster built
    # directly with the best parameters in the same place: after a rolling update_predict on the
    # ensembles, the member tuner's cutoff and the ensembles' forecasts are the same
    if scen["refit"] and not res.violations and scen["series"]["seed"] % 3 == 0 and not scen.get("refit_fails") \
            and scen["metric"] != "corr":
        from sktime.forecasting.compose import EnsembleForecaster
        from sktime.forecasting.model_selection import SlidingWindowSplitter
        from sktime.forecasting.naive import NaiveForecaster
        try:
            with sched.scenario_schedule(sched.Scheduler("fifo", 0)), patched_evaluate_clock(SimClock(6)):
                e_t = EnsembleForecaster([("t", _make_tuner(scen, None)), ("o", NaiveForecaster(strategy="drift"))])
                e_d = EnsembleForecaster([("t", clone(C.build(scen["base"])).set_params(**_fresh(cands[bi]))),
                                          ("o", NaiveForecaster(strategy="drift"))])
                mk_cv = lambda: SlidingWindowSplitter(fh=[1, 2], window_length=1, step_length=1,  # noqa
                                                      start_with_window=False)
                outs = []
                for e_ in (e_t, e_d):
                    e_.fit(y, fh=[1, 2])
                    e_.update_predict(tail, mk_cv())
                    outs.append((e_.forecasters_[0].cutoff, e_.cutoff, e_.predict()))
            res.probe("tuner_as_ensemble_member_checked")
            (ct, cet, pt), (cd, ced, pd_) = outs
            if ct != cd or cet != ced:
                v("tuner_cutoff_differs", "as a member of an ensemble, after update_predict on the ensemble: "
                  "the tuner's cutoff is %s (ensemble %s), a forecaster built with the best parameters in "
                  "its place has %s (ensemble %s)" % (ct, cet, cd, ced), op="member_of_ensemble")
            elif not C.same_series(pt, pd_):
                v("tuner_differs_from_best_forecaster", "as a member of an ensemble, after update_predict: "
                  "the ensemble with the tuner forecasts %s, with a forecaster built from the best "
                  "parameters %s" % (C.fmt(pt), C.fmt(pd_)), op="member_of_ensemble")
        except Exception as e:  # noqa
            digest.update(("member:%s" % type(e).__name__).encode())
    # ---- the same tuner switched to refit=False and fitted again: the forecaster of the
    # earlier fit must not answer any more
    if scen.get("toggle_refit") and not res.violations:
        try:
            with sched.scenario_schedule(sched.Scheduler("fifo", 0)), patched_evaluate_clock(SimClock(5)):
                tuner.set_params(refit=False)
                tuner.fit(y)
            res.probe("refit_switched_off_and_fitted_again")
            for name, call in (("predict", lambda: tuner.predict([1, 2])),
                               ("update", lambda: tuner.update(tail.iloc[:2])),
                               ("update_predict_single", lambda: tuner.update_predict_single(tail.iloc[:2], fh=[1]))):
                try:
                    call()
                    v("no_refit_method_worked", "%s returned a result after set_params(refit=False) "
                      "and a second fit" % name, method=name, toggled=True)
                    break
                except NotFittedError:
                    pass
                except Exception as e:  # noqa
                    v("no_refit_wrong_error", "%s raised %s instead of NotFittedError after "
                      "set_params(refit=False) and a second fit" % (name, type(e).__name__),
                      method=name, exc=type(e).__name__, toggled=True)
                    break
        except Exception as e:  # noqa
            if scen["metric"] == "corr" and isinstance(e, KeyError):
                # (a randomized search with a RandomState instance draws other candidates on
                # its second fit; when none of them has a defined score nothing is demanded)
                res.probe("all_scores_undefined")
                res.digest = digest.hexdigest()[:16]
                return res
            v("fit_raised", "fit after set_params(refit=False) raised %s: %s" % (
                type(e).__name__, str(e)[:150]), exc=type(e).__name__)
    res.digest = digest.hexdigest()[:16]
    res.states.add(short_hash([bi, len(cands), scen["refit"]]))
    return res


# ------------------------------------------------------------------ shrinking
def shrink_candidates(prop, scen):
    s = json.loads(json.dumps(scen))
    if prop == "C07":
        if s["with_X"]:
            yield dict(s, with_X=False)
        if s["return_data"]:
            yield dict(s, return_data=False)
        if s["clock"]["jump_every"]:
            yield dict(s, clock=dict(s["clock"], jump_every=0))
        if s["spec"]["kind"] != "naive":
            yield dict(s, spec={"kind": "naive", "strategy": "last", "sp": 1, "window_length": None})
        if s.get("prefit"):
            yield dict(s, prefit=False)
        if s["series"]["origin"]:
            yield dict(s, series=dict(s["series"], origin=0))
        if s["cv"].get("initial"):
            c = dict(s["cv"])
            c.pop("initial")
            yield dict(s, cv=c)
        if len(s["cv"]["fh"]) > 1:
            yield dict(s, cv=dict(s["cv"], fh=[s["cv"]["fh"][0]]))
        if s["cv"]["window"] > 3:
            yield dict(s, cv=dict(s["cv"], window=max(3, s["cv"]["window"] // 2)))
        if s["n"] > 12:
            yield dict(s, n=max(12, s["n"] - 5))
        if s["cv"]["step"] < 5:
            yield dict(s, cv=dict(s["cv"], step=5))
        return
    if isinstance(s["grid"], list):
        for g in s["grid"]:
            yield dict(s, grid=g)
    for key in (list(s["grid"]) if isinstance(s["grid"], dict) else []):
        if len(s["grid"][key]) > 1:
            for cand in ddmin_list(s["grid"][key]):
                if cand:
                    g = dict(s["grid"])
                    g[key] = cand
                    yield dict(s, grid=g)
        if len(s["grid"]) > 1:
            g = dict(s["grid"])
            g.pop(key)
            yield dict(s, grid=g)
    if s["history"]:
        for cand in ddmin_list(s["history"]):
            yield dict(s, history=cand)
    if s.get("second_fit"):
        yield dict(s, second_fit=False)
    if s["sched"]["mode"] == "interleave":
        yield dict(s, sched=dict(s["sched"], mode="ooo"))
    if s["sched"]["mode"] != "fifo":
        yield dict(s, sched=dict(s["sched"], mode="fifo"))
    if s["n_jobs"]:
        yield dict(s, n_jobs=None)
    if s["pre_dispatch"] is not None:
        yield dict(s, pre_dispatch=None)
    if s["search"] == "random":
        yield dict(s, search="grid")
    if s["clock"]["jump_every"]:
        yield dict(s, clock=dict(s["clock"], jump_every=0))
    if s["series"]["origin"]:
        yield dict(s, series=dict(s["series"], origin=0))
    if s["cv"]["step"] < 5:
        yield dict(s, cv=dict(s["cv"], step=5))
