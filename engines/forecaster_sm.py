# -*- coding: utf-8 -*-
"""Forecaster state machine: seeded call histories over real forecasters and
composites, checked after every step against a reference model.

C10 - updating with new data is equivalent to having observed it
C03 - forecasts are indexed by exactly the requested horizon from the true cutoff
(DESIGN.md section 7)."""
import hashlib
import json
import pickle

import numpy as np
import pandas as pd

from engines import common as C
from simkit import peers, sched
from simkit.core import RunResult, ddmin_list, short_hash

LEVEL = {"C10": "exploration", "C03": "exploration"}
TIERS = {"C10": (9000, 150, 300000, 1200), "C03": (5000, 150, 150000, 1200)}
PROBES = {
    "C10": ["overlap_batch_hit", "overlap_changed_values", "empty_batch", "empty_batch_with_cutoff_inside", "revision_only_batch", "single_point_batch",
            "update_params_false", "refit_equivalence_checked", "no_param_update_checked",
            "update_predict_checked", "update_predict_default_cv", "update_predict_multi_step",
            "update_before_any_fh", "pickle_midway", "ensemble_parallel_update",
            "cutoff_restored_checked", "exogenous_data", "stale_batch", "failed_call_injected",
            "batching_invariance_checked", "labels_after_stale_checked",
            "same_integers_other_kind", "frozen_model_same_time_points_checked",
            "components_reused_elsewhere", "remembered_absolute_horizon_reused",
            "labels_after_update_predict_checked", "horizon_remembered_across_update_predict",
            "fitted_again_on_earlier_data"],
    "C03": ["gapped_fh", "absolute_fh", "fh_at_fit", "fh_reused_across_cutoffs",
            "predict_after_update", "shifted_twin_checked", "gapped_vs_contiguous_checked",
            "exogenous_data", "stale_batch", "failed_call_injected", "unsorted_fh", "fh_as_index",
            "labels_after_stale_checked", "empty_batch_with_cutoff_inside",
            "int_index_nonzero_origin", "negative_origin", "composite_depth2",
            "tuned_forecaster", "same_integers_other_kind", "components_reused_elsewhere",
            "frozen_model_same_time_points_checked", "remembered_absolute_horizon_reused",
            "labels_after_update_predict_checked", "horizon_remembered_across_update_predict",
            "fitted_again_on_earlier_data"],
}
FAULT_KINDS = {
    "C10": ["overlap_batch", "empty_batch", "pickle_roundtrip", "schedule_ooo",
            "schedule_interleave", "peer_raises@k", "component_reuse"],
    "C03": ["overlap_batch", "pickle_roundtrip", "schedule_ooo", "schedule_interleave",
            "index_shift", "peer_raises@k", "component_reuse"],
}
RULE = {
    "C10": ("seeded histories over {fit, update(update_params), predict, update_predict_single, "
            "update_predict(cv), pickle} on real forecasters and composites; batches consecutive, "
            "overlapping (optionally with changed values), empty or single-point; ensemble member "
            "fits under the simulated scheduler. Non-trivial = at least one state-changing "
            "operation after fit and at least one fault/schedule event (overlap, empty batch, "
            "pickle, simulated Parallel) fired; distinct = canonical scenario JSON + schedule trace."),
    "C03": ("same engine; every history is applied in lock step to a twin whose integer time "
            "index is shifted by a constant; horizons relative/absolute, contiguous/gapped, given "
            "at fit or at predict and reused across moving cutoffs. Non-trivial = at least one "
            "update before a checked predict and a non-zero index shift; distinct = canonical "
            "scenario JSON + schedule trace."),
}
ASSUMPTIONS = {
    "C10": ["data arrive in time order without gaps (the property's precondition)",
            "refit-equivalence is demanded only of forecasters whose update refits (naive, trend, "
            "exp. smoothing, ETS, reductions, ensembles/multiplexers of those); Theta, pipeline, "
            "stacking and tuner have custom updates",
            "direct/recursive/dirrec reductions run with the stub regressor (numpy>=2.4 gap)"],
    "C03": ["integer RangeIndex / Index and PeriodIndex only (Timestamp.freq is gone in pandas 2)",
            "out-of-sample horizons only, as the property states"],
}


# ------------------------------------------------------------------ generation
def _fh_form(rng, fhspec):
    """How the same horizon is written by the user: list / array / pd.Index, possibly unsorted."""
    if fhspec is None or fhspec.get("abs"):
        return fhspec
    r = rng.random()
    if r < 0.15:
        fhspec["form"] = "index"
    elif r < 0.3:
        fhspec["form"] = "array"
    if len(fhspec["steps"]) > 1 and rng.random() < 0.25:
        fhspec["unsorted"] = True
    return fhspec


def _gen_steps(rng, max_h=8):
    n = rng.randint(1, 4)
    if rng.random() < 0.45:
        return list(range(1, n + 1))
    return sorted(rng.sample(range(1, max_h + 1), n))


def generate(prop, rng, tier):
    big = tier == "thorough"
    slow_ok = rng.random() < (0.25 if not big else 0.35)
    kinds = ("ensemble", "ttf", "stack", "mux")
    spec = C.gen_forecaster(rng, depth=rng.choice([0, 0, 1, 1, 2]), allow_slow=slow_ok, kinds=kinds)
    if rng.random() < (0.08 if prop == "C03" else 0.05):
        base = C.gen_leaf(rng, allow_slow=False, allow_reduce=False)
        while base["kind"] != "naive":
            base = C.gen_leaf(rng, allow_slow=False, allow_reduce=False)
        spec = {"kind": "gscv", "forecaster": dict(base, strategy="last", sp=1, window_length=None),
                "cv": {"type": "sliding", "window": rng.choice([4, 5, 6]), "step": rng.choice([1, 2, 3]),
                       "fh": [1, 2]},
                "grid": {"strategy": ["last", "mean", "drift"], "window_length": rng.choice([[3, 4], [None, 4]])},
                "n_jobs": rng.choice([None, 2, 3]), "refit": True}
    if rng.random() < 0.04:
        # a tuned forecaster as one member of an ensemble / as the selected member
        tuned = {"kind": "gscv", "forecaster": {"kind": "naive", "strategy": "last", "sp": 1, "window_length": None},
                 "cv": {"type": "sliding", "window": 5, "step": 2, "fh": [1, 2]},
                 "grid": {"strategy": ["last", "mean"], "window_length": [3, 4]}, "n_jobs": None, "refit": True}
        other = {"kind": "trend", "degree": 1, "with_intercept": True}
        spec = rng.choice([{"kind": "ensemble", "members": [tuned, other], "aggfunc": "mean", "n_jobs": None},
                           {"kind": "mux", "members": [tuned, other], "selected": 0}])
    if prop == "C10" and rng.random() < 0.06:
        # pipelines whose transformers keep what they learnt in fit (seasonal components
        # aligned to the training start) across updates
        spec = {"kind": "ttf",
                "transformers": [{"kind": rng.choice(["deseason", "deseason", "cdeseason"]),
                                  "sp": rng.choice([2, 3, 4]),
                                  "model": rng.choice(["additive", "multiplicative"])}],
                "forecaster": rng.choice([
                    {"kind": "naive", "strategy": rng.choice(["last", "mean", "drift"]), "sp": 1,
                     "window_length": None},
                    {"kind": "trend", "degree": 1, "with_intercept": True}])}
    if prop == "C03" and rng.random() < 0.04:
        # an ensemble that learns member weights from every update batch (its update is custom;
        # only labels, lengths, cutoffs and shift invariance are judged)
        simple = [{"kind": "naive", "strategy": "last", "sp": 1, "window_length": None},
                  {"kind": "naive", "strategy": "mean", "sp": 1, "window_length": rng.choice([3, 5])},
                  {"kind": "trend", "degree": 1, "with_intercept": True},
                  {"kind": "naive", "strategy": "drift", "sp": 1, "window_length": None}]
        spec = {"kind": "online", "members": rng.sample(simple, rng.randint(2, 3)),
                "algo": rng.choice(["nnls", "nnls", None])}
    abs_stack = rng.random() < 0.04
    if abs_stack:
        # stacking over models that are functions of time alone, fitted with an ABSOLUTE horizon:
        # the same time points stay requested while small updates move the cutoff
        spec = {"kind": "stack", "members": [{"kind": "trend", "degree": 1, "with_intercept": True},
                                             {"kind": "trend", "degree": 2, "with_intercept": True}],
                "final": "stub", "n_jobs": rng.choice([None, 2])}
    fh_fit_needed = C.needs_fh_at_fit(spec)
    fit_steps = _gen_steps(rng)
    if abs_stack:
        fit_steps = sorted(rng.sample(range(4, 9), rng.randint(1, 3)))
    max_h = 8
    n0 = C.min_train_len(spec, max(fit_steps) if fh_fit_needed else max_h) + rng.randint(0, 12 if not big else 40)
    index_kind = rng.choice(["range", "range", "range", "int", "int"])
    origin = rng.choice([0, 0, 1, 5, 17, 100, 1000, -3, -50, "end_at_zero"])
    if origin == "end_at_zero":
        origin = -(n0 - 1)      # the training series ends exactly at time 0
    if index_kind == "period":
        origin = rng.choice([0, 3, 14])
    ops = [{"op": "fit", "n": n0,
            "fh": {"steps": fit_steps, "abs": False} if (fh_fit_needed or rng.random() < 0.4) else None}]
    n_ops = rng.randint(2, 7 if not big else 12)
    total = n0
    fh_known = ops[0]["fh"] is not None
    if abs_stack:
        ops[0]["fh"] = {"steps": fit_steps, "abs": True}
        for _ in range(rng.randint(1, 3)):
            ops.append({"op": "update", "take": 1, "overlap": rng.choice([0, 0, 1]), "change": False,
                        "up": rng.random() < 0.25})
            ops.append({"op": "predict", "fh": None})
            total += 1
        n_ops = 0
    for _ in range(n_ops):
        r = rng.random()
        fhspec = None
        if fh_fit_needed:
            fhspec = rng.choice([None, {"steps": fit_steps, "abs": False}])
        else:
            if not fh_known or rng.random() < 0.75:
                fhspec = _fh_form(rng, {"steps": _gen_steps(rng), "abs": rng.random() < 0.3})
        if r < 0.34:
            if fhspec is not None and not fh_fit_needed and fh_known and rng.random() < 0.25:
                fhspec = dict(fhspec, same_ints=True)
            ops.append({"op": "predict", "fh": fhspec})
            fh_known = fh_known or fhspec is not None
            if prop == "C10" and fh_known and rng.random() < 0.15:
                # ... then a batch that only REVISES the latest observations (it ends at the
                # cutoff, nothing new), and the same forecast is asked for again
                ops.append({"op": "update", "take": 0, "overlap": rng.choice([1, 2, 4]), "change": True,
                            "up": rng.random() < 0.3, "revise": True})
                ops.append({"op": "predict", "fh": fhspec if fhspec is None or not fhspec.get("same_ints")
                            else None})
        elif r < 0.64:
            take = rng.choice([0, 1, 1, 2, 3, 4, 5, 8]) if rng.random() < 0.9 else 0
            ops.append({"op": "update", "take": take,
                        "overlap": rng.choice([0, 0, 0, 1, 2, 4]),
                        "change": rng.random() < 0.4,
                        "up": rng.random() < 0.65})
            total += take
        elif r < 0.76:
            take = rng.choice([1, 2, 3, 5])
            ops.append({"op": "ups", "take": take, "overlap": rng.choice([0, 0, 1, 2]),
                        "change": False, "fh": fhspec, "up": rng.random() < 0.6})
            fh_known = fh_known or fhspec is not None
            total += take
        elif r < 0.92:
            take = rng.choice([6, 8, 10, 12])
            cvfh = fit_steps if fh_fit_needed else _gen_steps(rng, 4)
            cv = None
            if rng.random() < 0.8 or not fh_known:
                cv = {"type": rng.choice(["sliding", "sliding", "expanding"]),
                      "window": rng.choice([1, 2, 3, 4]), "step": rng.choice([1, 1, 2, 3]),
                      "fh": cvfh, "start_with_window": rng.random() < 0.7}
            ops.append({"op": "upd", "take": take, "cv": cv, "up": rng.random() < 0.6})
            total += take
            if rng.random() < 0.25:
                # ... and then the same observations are handed over again with update
                ops.append({"op": "update", "take": 1, "overlap": take, "change": False,
                            "up": rng.random() < 0.65})
                total += 1
        else:
            ops.append({"op": "pickle"})
        if rng.random() < 0.12:
            ops.append({"op": "stale", "back": rng.randint(2, 6), "len": rng.randint(1, 3),
                        "change": rng.random() < 0.5, "up": rng.random() < 0.4})
            if rng.random() < 0.4:
                # ... followed by an update that passes nothing at all
                ops.append({"op": "update", "take": 0, "overlap": 0, "change": False,
                            "up": rng.random() < 0.7})
        if rng.random() < 0.12:
            ops.append({"op": "bad_call", "kind": rng.choice(["faulty_cv", "faulty_cv", "insample_X"]),
                        "after": rng.randint(0, 3), "take": rng.choice([6, 8])})
    if rng.random() < 0.12 and len(ops) >= 3 and not abs_stack:
        # the same forecaster object is fitted AGAIN later on - on the original training series,
        # which by then ends before the current cutoff (everything learnt since is forgotten)
        ops.insert(rng.randint(2, len(ops)), {"op": "fit", "n": n0, "fh": ops[0]["fh"], "again": True})
    if spec["kind"] in ("ensemble", "stack", "ttf", "mux") and rng.random() < 0.3:
        # the user goes on using the component objects they passed in (fits them elsewhere)
        ops.insert(rng.randint(1, len(ops)), {"op": "reuse", "start": rng.randint(0, 5),
                                              "n": rng.randint(8, 14)})
    # empty batches: only for leaf forecasters (whose update documents them) and only
    # while the cutoff is at the end of the data seen (not after an update_predict)
    seen_upd = False
    for o in ops:
        seen_upd = seen_upd or o["op"] == "upd"
        if o["op"] == "update" and o["take"] == 0 and not o.get("revise") and (
                seen_upd or spec["kind"] in ("ttf", "stack", "ensemble", "mux", "gscv", "theta", "online")):
            o["take"] = 1
    exog = False
    if _exog_ok(spec) and rng.random() < 0.35:
        exog = True
        ops = [o for o in ops if o["op"] not in ("ups", "upd", "bad_call")]
        for o in ops:  # check_y_X(allow_empty=True) does not extend to X: no empty batches with X
            if o["op"] == "update" and o["take"] == 0:
                o["take"] = 1
    mode = rng.choice(["fifo", "ooo", "ooo", "interleave", "interleave"])
    scen = {
        "spec": spec,
        "series": {"seed": rng.randint(0, 10 ** 6), "n": total + 14, "origin": origin,
                   "index": index_kind, "sp": rng.choice([2, 3, 4, 4, 6])},
        "shift": rng.choice([-40, -7, 1, 3, 10, 100, 500]),
        "exog": exog,
        "ops": ops,
        "sched": {"mode": mode, "seed": rng.randint(0, 10 ** 6),
                  "p": rng.choice([0.01, 0.05, 0.1, 0.3])},
    }
    return scen


def _exog_ok(spec):
    """Forecasters that accept exogenous data in fit/update (others raise NotImplementedError)."""
    k = spec["kind"]
    if k == "naive":
        return True
    if k == "reduce":
        return spec["strategy"] in ("direct", "multioutput")
    if k == "ensemble":
        return all(_exog_ok(m) for m in spec["members"])
    if k == "mux":
        return _exog_ok(spec["members"][spec["selected"]])
    if k == "ttf":
        # (the transformers work on y alone; X is for the final forecaster)
        return _exog_ok(spec["forecaster"])
    return False


def _make_X(y, seed):
    rs = np.random.RandomState(seed)
    return pd.DataFrame({"x0": np.round(rs.normal(size=len(y)), 4),
                         "x1": np.round(np.sin(np.arange(len(y)) / 3.0), 4)}, index=y.index)


# ------------------------------------------------------------------ helpers
def _mk_fh(fhspec, cutoff_label, index_kind):
    """Build the `fh` argument as a user would."""
    if fhspec is None:
        return None
    steps = list(fhspec["steps"])
    if not fhspec.get("abs"):
        if fhspec.get("unsorted"):
            steps = steps[1:] + steps[:1]  # same set of steps, written out of order
        if fhspec.get("form") == "index":
            return pd.Index(steps, dtype=np.int64)
        if fhspec.get("form") == "array":
            return np.array(steps)
        return steps
    from sktime.forecasting.base import ForecastingHorizon
    if index_kind == "period":
        vals = pd.PeriodIndex([cutoff_label + s for s in steps], freq=cutoff_label.freq)
    else:
        vals = pd.Index([int(cutoff_label) + s for s in steps], dtype=np.int64)
    return ForecastingHorizon(vals, is_relative=False)


def _expected_index(steps, cutoff_label):
    return [cutoff_label + s for s in steps]


def _key(label):
    """Hashable model key of a time label."""
    return label.ordinal if isinstance(label, pd.Period) else int(label)


class Actor:
    """One forecaster driven through the history (the primary or the shifted twin)."""

    def __init__(self, spec, y_full, index_kind, X_full=None):
        self.spec = spec
        self.f = C.build(spec)
        self.y = y_full
        self.X = X_full
        self.seenX = {}
        self.kind = index_kind
        self.pos = 0            # number of points handed over so far (high-water mark)
        self.cut = None         # position of the cutoff in y_full
        self.fh_steps = None    # horizon the forecaster remembers
        self.fh_abs = False
        self.fh_cut = None      # position of the cutoff when that horizon was given
        self.seen = {}          # model: time key -> value
        self.fitted = False

    def label(self, p):
        return self.y.index[p]

    def batch(self, start, stop, change_seed=None, n_changed=0):
        b = self.y.iloc[start:stop].copy()
        if change_seed is not None and n_changed > 0:
            rs = np.random.RandomState(change_seed)
            k = min(n_changed, len(b))
            b.iloc[:k] = np.round(b.iloc[:k].values + rs.uniform(0.5, 1.5, size=k), 6)
        return b

    def observe(self, b):
        for lab, v in zip(b.index, b.values):
            self.seen[_key(lab)] = float(v)
        if self.X is not None and len(b):
            xb = self.X.loc[b.index]
            for lab, row in zip(xb.index, xb.values):
                self.seenX[_key(lab)] = [float(v) for v in row]

    def xbatch(self, b):
        return None if self.X is None else self.X.loc[b.index]

    def seen_X(self):
        if self.X is None:
            return None
        ys = self.seen_series()
        return pd.DataFrame([self.seenX[_key(l)] for l in ys.index], index=ys.index,
                            columns=self.X.columns)

    def seen_series(self):
        keys = sorted(self.seen)
        vals = [self.seen[k] for k in keys]
        if self.kind == "period":
            idx = pd.PeriodIndex([pd.Period(ordinal=k, freq=self.y.index.freq) for k in keys],
                                 freq=self.y.index.freq)
        elif self.kind == "range":
            idx = pd.RangeIndex(keys[0], keys[0] + len(keys))
        else:
            idx = pd.Index(np.asarray(keys, dtype=np.int64))
        return pd.Series(vals, index=idx, dtype=float)


def _top(spec):
    k = spec["kind"]
    if k == "reduce":
        return "reduce-" + spec["strategy"]
    return k


def _contains(spec, pred):
    if pred(spec):
        return True
    for key in ("members", "transformers"):
        if any(_contains(m, pred) for m in spec.get(key, [])):
            return True
    for key in ("forecaster", "transformer"):
        if isinstance(spec.get(key), dict) and _contains(spec[key], pred):
            return True
    return False


# ------------------------------------------------------------------ execution
def execute(prop, scen):
    res = RunResult()
    peers.reset()
    C.reset_caches()
    np.random.seed(scen["series"]["seed"] % (2 ** 31))
    s = scen["series"]
    y = C.make_series(s["seed"], s["n"], s["origin"], s["index"], sp=s["sp"])
    spec = scen["spec"]
    res.real.update(C.class_names(spec))
    if C.uses_stub(spec):
        res.stub.add("StubRegressor")
    res.stub.add("joblib backend: simkit SimBackend")
    sc = sched.Scheduler(scen["sched"]["mode"], scen["sched"]["seed"], scen["sched"]["p"])
    eng = Engine(prop, scen, res, y)
    with sched.scenario_schedule(sc):
        eng.run()
    res.sched = sc.stats()
    if sc.n_tasks:
        res.fault("schedule_interleave" if sc.mode == "interleave" else
                  "schedule_ooo" if sc.mode == "ooo" else "schedule_fifo", sc.n_tasks)
        if prop == "C10" and eng.state_changes:
            res.probe("ensemble_parallel_update")
    res.digest = eng.digest.hexdigest()[:16]
    # non-triviality
    if prop == "C10":
        res.nontrivial = eng.state_changes > 0 and (
            eng.fault_events > 0 or sc.n_tasks > 0)
    else:
        res.nontrivial = eng.checked_after_update > 0 and scen["shift"] != 0
    return res


class Engine:
    def __init__(self, prop, scen, res, y):
        self.prop = prop
        self.scen = scen
        self.res = res
        self.spec = scen["spec"]
        self.kind = scen["series"]["index"]
        X = _make_X(y, scen["series"]["seed"] + 9) if scen.get("exog") else None
        self.a = Actor(self.spec, y, self.kind, X)
        self.tw = None
        if prop == "C03":
            y2 = C.shift_series(y, scen["shift"])
            X2 = None
            if X is not None:
                X2 = X.copy()
                X2.index = y2.index
            self.tw = Actor(self.spec, y2, self.kind, X2)
            res.fault("index_shift")
        if X is not None:
            res.probe("exogenous_data")
        self.digest = hashlib.sha256()
        self.state_changes = 0
        self.fault_events = 0
        self.checked_after_update = 0
        self.updates_since_fit = 0
        self.refit_clean = False     # last state change was fit / update(True) (no update_predict since)
        self.snap_refit = None       # pickle of the forecaster right after its last (re)fit
        self.snap_fit = None         # pickle right after the last fit()
        self.since_fit = []          # every batch given to update since that fit
        self.all_up = True           # all of them with update_params=True
        self.since_refit = []        # batches given with update_params=False since then
        self.fit_fh = None
        self.after_upd = False       # state right after update_predict (see op_predict)
        self.stale_state = False     # cutoff moved back by a stale batch
        self.top = _top(self.spec)
        self.dead = False
        self.deferred = []
        if prop == "C03":
            o = scen["series"]["origin"]
            if self.kind == "int" and o != 0:
                res.probe("int_index_nonzero_origin")
            if o < 0:
                res.probe("negative_origin")
            if _contains(self.spec, lambda s: s["kind"] in ("ensemble", "ttf", "stack", "mux")
                         and any(m["kind"] in ("ensemble", "ttf", "stack", "mux")
                                 for key in ("members",) for m in s.get(key, []))):
                res.probe("composite_depth2")
            if self.spec["kind"] == "gscv":
                res.probe("tuned_forecaster")

    # ---- bookkeeping
    def v(self, cls, detail, **sig):
        sig.setdefault("forecaster", self.top)
        self.res.violate("%s.%s" % (self.prop, cls), detail, **sig)

    def note(self, *what):
        self.digest.update(repr(what).encode())

    def actors(self):
        return [a for a in (self.a, self.tw) if a is not None]

    def call(self, opname, fn):
        """Run one API call on the primary (and the twin); an exception in a
        valid history is a violation of the property under check."""
        outs = []
        for who, actor in (("primary", self.a), ("twin", self.tw)):
            if actor is None:
                continue
            try:
                outs.append(fn(actor))
            except (peers.InjectedFault, peers.InjectedKill):
                raise
            except Exception as e:  # noqa
                self.note(opname, who, "raised", type(e).__name__)
                self.v("op_raised", "%s raised %s: %s in a valid history (%s)" % (
                    opname, type(e).__name__, str(e)[:160], who),
                    op=opname, exc=type(e).__name__)
                self.dead = True
                return None
        return outs

    # ---- the history
    def run(self):
        for i, op in enumerate(self.scen["ops"]):
            if self.dead or self.res.violations:
                break
            self.res.ops += 1
            getattr(self, "op_" + op["op"])(i, op)
            if not self.dead and self.a.fitted:
                self.check_state(i, op)
            self.res.states.add(short_hash([self.a.cut, self.a.pos, self.a.fh_steps,
                                            len(self.a.seen), self.refit_clean]))
        for cls_, detail_ in self.deferred:
            self.v(cls_, detail_, op="predict", model="theta")

    def op_fit(self, i, op):
        n0 = op["n"]
        fhs = op.get("fh")

        def do(actor):
            b = actor.batch(0, n0)
            fh = _mk_fh(fhs, actor.label(n0 - 1), actor.kind) if fhs else None
            out = actor.f.fit(b, X=actor.xbatch(b), fh=fh)
            actor.seen = {}
            actor.seenX = {}
            actor.observe(b)
            actor.pos = n0
            actor.cut = n0 - 1
            actor.fh_steps = list(fhs["steps"]) if fhs else None
            actor.fh_abs = bool(fhs and fhs.get("abs"))
            actor.fh_cut = n0 - 1
            actor.fitted = True
            return out
        if op.get("again") and self.a.fitted and self.a.cut is not None and self.a.cut > n0 - 1:
            self.res.probe("fitted_again_on_earlier_data")
        outs = self.call("fit", do)
        if outs is None:
            return
        if outs[0] is not self.a.f and self.prop == "C10":
            pass  # fit returning self is C04's business
        self.fit_fh = fhs
        self.refit_clean = True
        self.after_upd = False
        self.stale_state = False
        self.updates_since_fit = 0
        self.snapshot()
        self.snap_fit = self.snap_refit
        self.since_fit, self.all_up = [], True
        if fhs and self.prop == "C03":
            self.res.probe("fh_at_fit")
        self.note("fit", n0, fhs)

    def snapshot(self):
        if self.prop != "C10" and not _time_only(self.spec):
            return
        try:
            with peers.paused():
                self.snap_refit = pickle.dumps(self.a.f)
        except Exception as e:  # noqa
            self.snap_refit = None
        self.since_refit = []

    def _update_args(self, actor, op):
        take, ov = op["take"], min(op.get("overlap", 0), actor.pos)
        if take == 0 and not op.get("revise"):
            ov = 0
        start, stop = actor.pos - ov, actor.pos + take
        b = actor.batch(start, stop, self.scen["series"]["seed"] + start if op.get("change") else None, ov)
        return b, ov

    def op_update(self, i, op):
        up = op["up"]
        fh_known = self.a.fh_steps is not None
        if op["take"] == 0 and not op.get("revise") and self.a.cut != self.a.pos - 1:
            # an empty batch while the cutoff lies INSIDE the remembered data (after a batch of
            # older observations): nothing was passed, so the cutoff stays where it is (checked
            # by check_state after the op); which forecasts follow is not judged in that state
            if self.stale_state and not self.dead:
                def do_empty(actor):
                    b = actor.batch(actor.pos, actor.pos)
                    return actor.f.update(b, X=actor.xbatch(b), update_params=up)
                if self.call("update", do_empty) is not None:
                    self.res.probe("empty_batch_with_cutoff_inside")
                    self.res.fault("empty_batch")
                    self.note("update_empty_inside", up)
            return

        def do(actor):
            b, ov = self._update_args(actor, op)
            out = actor.f.update(b, X=actor.xbatch(b), update_params=up)
            if len(b):
                actor.observe(b)
                actor.pos = max(actor.pos, actor.pos + op["take"])
                actor.cut = actor.pos - 1
            return b, ov, out
        outs = self.call("update", do)
        if outs is None:
            return
        b, ov, out = outs[0]
        self.state_changes += 1
        self.updates_since_fit += 1
        if self.prop == "C10":
            if ov:
                self.res.probe("overlap_batch_hit")
                self.res.fault("overlap_batch")
                self.fault_events += 1
                if op.get("change"):
                    self.res.probe("overlap_changed_values")
            if len(b) == 0:
                self.res.probe("empty_batch")
                self.res.fault("empty_batch")
                self.fault_events += 1
            if len(b) and op["take"] == 0:
                self.res.probe("revision_only_batch")
            if len(b) == 1:
                self.res.probe("single_point_batch")
            if not up:
                self.res.probe("update_params_false")
            if up and not fh_known:
                self.res.probe("update_before_any_fh")
        elif ov:
            self.res.fault("overlap_batch")
        if len(b):
            self.stale_state = False
            self.since_fit.append(b)
            self.all_up = self.all_up and up
        if up:
            self.refit_clean = True   # (an empty batch still refits on everything seen)
            self.after_upd = False
            self.snapshot()
        elif len(b):
            self.refit_clean = False
            self.after_upd = False
            self.since_refit.append(b)
        self.note("update", len(b), ov, up)

    def op_stale(self, i, op):
        """A batch that re-sends a stretch of already seen time points (ending before the end
        of the data seen), with or without parameter updating: the property's literal clause
        'after every update the cutoff is the last time point of the data passed to update'
        (composites otherwise disagree with themselves: own cutoff at the end of the batch,
        forecasts labelled from their members' cutoff)."""
        if self.after_upd or self.scen.get("exog") or self.spec["kind"] in ("gscv",):
            return
        a = self.a
        if a.pos - op["back"] < 1 or a.cut != a.pos - 1:
            return

        def do(actor):
            start = actor.pos - op["back"]
            stop = min(actor.pos - 1, start + op["len"])
            b = actor.batch(start, stop, self.scen["series"]["seed"] + 77 + start
                            if op.get("change") else None, stop - start)
            actor.f.update(b, update_params=bool(op.get("up", False)))
            actor.observe(b)
            actor.cut = stop - 1
            return b
        outs = self.call("update", do)
        if outs is None:
            return
        self.state_changes += 1
        self.updates_since_fit += 1
        self.refit_clean = False
        self.snap_refit = None       # batching-invariance twin does not model a cutoff moved back
        self.snap_fit = None
        self.since_refit = []
        # forecasts from a cutoff moved back into the data are not judged (the last window may
        # not even fit there); the next forward update brings the cutoff to the end again
        self.after_upd = True
        self.stale_state = True
        self.res.probe("stale_batch")
        self.res.fault("overlap_batch")
        self.fault_events += 1
        self.note("stale", op["back"], op["len"])

    def op_bad_call(self, i, op):
        """A call that fails part-way (a peer supplied by the caller raises): afterwards the
        forecaster must be where it was: own cutoff restored, later forecasts unaffected."""
        a = self.a
        if self.after_upd or self.stale_state or self.scen.get("exog") or a.fh_steps is None or a.fh_abs:
            return
        if a.pos + op["take"] > len(a.y):
            return
        kind = op["kind"]
        steps = list(a.fh_steps)
        if kind == "insample_X" and C.needs_fh_at_fit(self.spec):
            return
        n_yield = 0
        if kind == "faulty_cv":
            # how many windows the (valid) inner splitter yields before the injected fault
            from sktime.forecasting.model_selection import SlidingWindowSplitter
            try:
                with peers.paused():
                    n_splits = len(list(SlidingWindowSplitter(fh=steps, window_length=2).split(
                        a.batch(a.pos, a.pos + op["take"]))))
            except Exception:
                return  # the horizon does not fit the batch: not a valid call to begin with
            n_yield = min(op["after"], n_splits)
            if n_yield >= n_splits:
                return  # the fault would never fire
        for who, actor in (("primary", self.a), ("twin", self.tw)):
            if actor is None:
                continue
            before = actor.f.cutoff
            try:
                if kind == "faulty_cv":
                    cv = _FaultyCV(SlidingWindowSplitter(fh=steps, window_length=2), op["after"])
                    actor.f.update_predict(actor.batch(actor.pos, actor.pos + op["take"]), cv,
                                           update_params=False)
                else:
                    X = pd.DataFrame({"x": np.zeros(4)}, index=actor.y.index[max(0, actor.cut - 3):actor.cut + 1])
                    actor.f.predict(fh=[-2, -1, 0], X=X)
                raised = False
            except Exception:
                raised = True
            self.res.probe("failed_call_injected")
            self.res.fault("peer_raises@k")
            self.fault_events += 1
            if not raised:
                if kind == "faulty_cv":
                    self.v("fault_swallowed", "update_predict returned although the splitter raised",
                           op=kind)
                    self.dead = True
                    return
                continue
            try:
                after = actor.f.cutoff
            except Exception:
                after = None
            if after != before:
                self.v("cutoff_not_restored_after_fault", "a %s call that failed part-way left the "
                       "forecaster's cutoff at %s (it was %s before the call) (%s)" % (
                           "update_predict" if kind == "faulty_cv" else "predict", after, before, who),
                       op=kind)
                self.dead = True
                return
        if kind == "faulty_cv":
            # data of the windows handed over before the fault is legitimately remembered
            self.refit_clean = False
            self.snap_refit = None
            self.snap_fit = None
            self.after_upd = True
            if n_yield > 0:
                for actor in self.actors():
                    n_seen = n_yield + 1  # windows of length 2 moving by 1
                    actor.observe(actor.batch(actor.pos, actor.pos + n_seen))
                    actor.pos += n_seen
        for actor in self.actors():
            if not C.needs_fh_at_fit(self.spec):
                actor.fh_abs = True  # which horizon is remembered now is unspecified
                actor.fh_cut = None
        self.note("bad_call", kind)

    def _same_integers(self, fhs):
        """A horizon of the OTHER kind (absolute <-> relative) written with exactly the
        integers of the one the forecaster remembers; falls back to the plain horizon when
        those integers would not be out-of-sample."""
        a = self.a
        plain = {k: v for k, v in fhs.items() if k != "same_ints"}
        if a.fh_steps is None or a.fh_cut is None or self.kind == "period" \
                or C.needs_fh_at_fit(self.spec):
            return plain
        cut = int(a.label(a.cut))
        if not a.fh_abs:
            steps = [int(v) - cut for v in a.fh_steps]          # absolute, same integers
            if min(steps) < 1 or max(steps) > 40:
                return plain
            self.res.probe("same_integers_other_kind")
            return {"steps": steps, "abs": True}
        ints = [int(a.label(a.fh_cut)) + int(v) for v in a.fh_steps]
        if min(ints) < 1 or max(ints) > 40:
            return plain
        self.res.probe("same_integers_other_kind")
        return {"steps": ints, "abs": False}

    def op_predict(self, i, op):
        fhs = op.get("fh")
        if fhs is not None and fhs.get("same_ints"):
            fhs = self._same_integers(fhs)
        if fhs is None and self.a.fh_steps is not None and self.a.fh_abs and self.a.fh_cut is not None \
                and not self.after_upd and not self.stale_state and self.kind != "period":
            # a remembered ABSOLUTE horizon: the same time points are answered after the cutoff
            # has moved, as long as they all still lie ahead of it
            a = self.a
            labels = [int(a.label(a.fh_cut)) + int(s_) for s_ in a.fh_steps]
            now = int(a.label(a.cut))
            if min(labels) > now and a.fh_cut != a.cut:
                self.res.probe("remembered_absolute_horizon_reused")
                self.predict_and_check(i, None, steps_override=[l_ - now for l_ in labels])
            return
        if fhs is None and (self.a.fh_steps is None or self.a.fh_abs):
            # no horizon known anywhere (a C20 matter), or a remembered absolute
            # horizon that may by now lie in-sample (outside the property)
            return
        if self.stale_state and fhs is not None and not fhs.get("abs"):
            # after a stale batch (non-refitting path) the forecast must at least be made from,
            # and labelled by, the new cutoff - in a composite by every part of it; values are
            # not judged there (the last window may not even fit) and a failure is tolerated
            self.labels_after_stale(i, fhs)
            return
        if self.after_upd:
            # right after update_predict the cutoff is restored while data and fitted
            # parameters are those of the last window: the VALUES of forecasts made in that
            # state are not judged (DESIGN.md, C10 notes), their LABELS are - a forecaster
            # (and every part of a composite) answers from the cutoff it reports
            if fhs is not None and not fhs.get("abs") and not self.stale_state \
                    and not C.needs_fh_at_fit(self.spec):
                self.res.probe("labels_after_update_predict_checked")
                self.labels_after_stale(i, fhs)
            elif fhs is None and self.a.fh_steps is not None and not self.a.fh_abs \
                    and not self.stale_state and not C.needs_fh_at_fit(self.spec):
                # no horizon given: the one remembered from before the rolling call
                self.res.probe("horizon_remembered_across_update_predict")
                self.labels_after_stale(i, {"steps": list(self.a.fh_steps), "abs": False}, remembered=True)
            return
        self.predict_and_check(i, fhs)

    def labels_after_stale(self, i, fhs, remembered=False):
        steps = list(fhs["steps"])
        for who, actor in (("primary", self.a), ("twin", self.tw)):
            if actor is None:
                continue
            try:
                with peers.paused():
                    g = pickle.loads(pickle.dumps(actor.f))  # (predict would change the remembered fh)
                    p = g.predict() if remembered else g.predict(_mk_fh(fhs, actor.label(actor.cut), actor.kind))
            except Exception:
                return
            self.res.probe("labels_after_stale_checked")
            exp = _expected_index(steps, actor.label(actor.cut))
            sp_ = self.spec
            if sp_["kind"] == "naive" and sp_.get("strategy") == "last" and sp_.get("sp", 1) == 1 \
                    and isinstance(p, pd.Series) and len(p) == len(steps):
                # the simplest model: every forecast is the observation at the (new) cutoff
                want = actor.seen.get(_key(actor.label(actor.cut)))
                if want is not None and not np.allclose(np.asarray(p.values, float), want):
                    self.v("forecast_not_from_new_cutoff", "after an update (update_params=False) with "
                           "a batch ending at %s, NaiveForecaster(last) forecasts %s, the observation "
                           "at that cutoff is %.6g (%s)" % (actor.label(actor.cut), C.fmt(p), want, who),
                           op="predict", after_update=True, values=True)
                    self.dead = True
                    return
            if remembered and isinstance(p, pd.Series) and len(p) != len(steps):
                self.v("wrong_length", "predict() after update_predict returns %d values for the "
                       "remembered horizon %s (%s)" % (len(p), steps, who), op="predict", after_update=True)
                self.dead = True
                return
            if isinstance(p, pd.Series) and len(p) == len(steps) and not C.same_index(list(p.index), exp):
                self.v("forecast_not_from_new_cutoff", "after an update (update_params=False) with a "
                       "batch ending at %s, predict(%s) is labelled %s, expected %s (%s)" % (
                           actor.label(actor.cut), steps, list(p.index)[:5], exp[:5], who),
                       op="predict", after_update=True)
                self.dead = True
                return

    def predict_and_check(self, i, fhs, label="predict", steps_override=None):
        steps = list(fhs["steps"]) if fhs else list(steps_override or self.a.fh_steps)

        def do(actor):
            fh = _mk_fh(fhs, actor.label(actor.cut), actor.kind) if fhs else None
            p = actor.f.predict(fh)
            if fhs:
                actor.fh_steps = list(fhs["steps"])
                actor.fh_abs = bool(fhs.get("abs"))
                actor.fh_cut = actor.cut
            return p
        outs = self.call(label, do)
        if outs is None:
            return None
        p = outs[0]
        self.note(label, steps, C.digest_obj(p))
        if self.prop == "C03":
            self.check_c03_prediction(i, p, outs[1] if len(outs) > 1 else None, steps, fhs)
        else:
            self.check_c10_prediction(i, p, steps)
        return p

    def op_ups(self, i, op):
        fhs = op.get("fh")
        if fhs is None and (self.a.fh_steps is None or self.a.fh_abs):
            return
        steps = list(fhs["steps"]) if fhs else list(self.a.fh_steps)
        up = op["up"]

        def do(actor):
            b, ov = self._update_args(actor, op)
            new_cut = actor.pos + op["take"] - 1
            fh = _mk_fh(fhs, actor.label(new_cut), actor.kind) if fhs else None
            p = actor.f.update_predict_single(b, fh=fh, update_params=up)
            actor.observe(b)
            actor.pos += op["take"]
            actor.cut = actor.pos - 1
            if fhs:
                actor.fh_steps = list(fhs["steps"])
                actor.fh_abs = bool(fhs.get("abs"))
                actor.fh_cut = actor.cut
            return p, b
        outs = self.call("update_predict_single", do)
        if outs is None:
            return
        p, b = outs[0]
        self.state_changes += 1
        self.updates_since_fit += 1
        self.after_upd = False
        self.stale_state = False
        self.since_fit.append(b)
        self.all_up = self.all_up and up
        if up:
            self.refit_clean = True
            self.snapshot()
        else:
            self.refit_clean = False
            self.since_refit.append(b)
        self.note("ups", steps, C.digest_obj(p))
        if self.prop == "C03":
            self.check_c03_prediction(i, p, outs[1][0] if len(outs) > 1 else None, steps, fhs)
        else:
            self.check_c10_prediction(i, p, steps)

    def op_reuse(self, i, op):
        """The component objects handed to the composite's constructor are the user's: the user
        fits them on another series.  The composite works on private copies, so nothing that
        is checked afterwards (labels, values, memory, cutoff) may change."""
        for actor in self.actors():
            f = actor.f
            comps = []
            for attr in ("forecasters", "steps"):
                for item in getattr(f, attr, None) or []:
                    comps.append(item[1])
            if hasattr(f, "final_regressor"):
                pass  # (a tabular regressor: not a time series estimator)
            other = actor.y.iloc[op["start"]:op["start"] + op["n"]]
            with peers.paused():
                for c_ in comps:
                    try:
                        s2 = sched.Scheduler("fifo", 0)
                        with sched.scenario_schedule(s2):
                            if hasattr(c_, "predict"):
                                c_.fit(other.copy(), fh=[1, 2])
                            else:
                                c_.fit(other.copy())
                    except Exception:
                        pass
        self.res.probe("components_reused_elsewhere")
        self.res.fault("component_reuse")
        self.note("reuse", op["start"], op["n"])

    def op_pickle(self, i, op):
        def do(actor):
            actor.f = C.pickle_roundtrip(actor.f)
            return True
        with peers.paused():
            if self.call("pickle_roundtrip", do) is None:
                return
        self.res.fault("pickle_roundtrip")
        if self.prop == "C10":
            self.res.probe("pickle_midway")
        self.fault_events += 1
        self.note("pickle")

    # ---- update_predict
    def op_upd(self, i, op):
        cvs = op.get("cv")
        up = op["up"]
        a = self.a
        if self.stale_state or (cvs is None and a.fh_steps is None):
            return
        if cvs is None and self.spec["kind"] == "online":
            # (this class documents its own default splitter, which starts with a window; the
            # default modelled here is the base class's)
            return
        take = op["take"]
        if a.pos + take > len(a.y):
            return
        # the splits are given truth (C01 is not under test here): compute them on
        # the batch with a fresh splitter; if the windows do not fit, skip the op
        b0 = a.batch(a.pos, a.pos + take)
        if cvs is None and a.fh_abs:
            return  # the default splitter is built from a relative horizon only
        if cvs is None and self.spec["kind"] == "gscv":
            return  # (the best forecaster's own default window may not fit the batch)
        try:
            cv_probe = self._make_cv(cvs, a)
            splits = [(np.asarray(tr), np.asarray(te)) for tr, te in cv_probe.split(b0)]
        except Exception:
            return
        if not splits:
            return
        cover = sorted({int(j) for tr, _ in splits for j in tr})
        if cover != list(range(len(cover))):
            return  # windows would leave holes in the observed series: not a valid history
        cv_steps = [int(x) for x in np.asarray(cv_probe.get_fh())]
        if C.needs_fh_at_fit(self.spec) and cv_steps != list(self.fit_fh["steps"]):
            return
        copies = {}
        follows = a.cut == a.pos - 1 and not self.after_upd
        if self.prop == "C10":
            try:
                with peers.paused():
                    copies["primary"] = pickle.loads(pickle.dumps(a.f))
            except Exception:
                copies = {}

        def do(actor):
            b = actor.batch(actor.pos, actor.pos + take)
            cv = None if cvs is None else C.build_cv(cvs)
            before = actor.f.cutoff
            out = actor.f.update_predict(b, cv, update_params=up)
            return out, b, before, actor.f.cutoff
        if self.after_upd:
            # a second rolling call made from the state right after update_predict (cutoff
            # restored, data and window length of the last window): whether the forecaster can
            # forecast from there is not judged (DESIGN.md, C10 notes) - the seasonal-mean
            # NaiveForecaster cannot - so a failure here ends the history without a verdict
            try:
                with peers.paused():
                    probe_ = pickle.loads(pickle.dumps(a.f))
                    b_ = a.batch(a.pos, a.pos + take)
                    probe_.update_predict(b_, None if cvs is None else C.build_cv(cvs), update_params=up)
            except Exception as e:  # noqa
                self.note("upd_from_restored_state_raised", type(e).__name__)
                self.dead = True
                return
        outs = self.call("update_predict", do)
        if outs is None:
            return
        out, b, cut_before, cut_after = outs[0]
        self.state_changes += 1
        self.refit_clean = False
        self.snap_refit = None
        self.snap_fit = None
        self.after_upd = True
        # (the horizon remembered before the call is still the remembered one afterwards: the
        # splitter's horizon is the call's own)
        self.note("upd", take, cvs, up, C.digest_obj(out))
        # model: everything inside a training window was handed to update
        last = -1
        for actor, o in zip(self.actors(), outs):
            bb = o[1]
            actor.observe(bb.iloc[cover])
            actor.pos += len(cover)  # later batches continue after the last window
            # cutoff stays where it was
        if cvs is None and self.prop == "C10":
            self.res.probe("update_predict_default_cv")
        if len(cv_steps) > 1 and self.prop == "C10":
            self.res.probe("update_predict_multi_step")
        # cutoff restoration
        if self.prop == "C10":
            self.res.probe("cutoff_restored_checked")
        if cut_after != cut_before:
            self.v("cutoff_not_restored", "update_predict moved the forecaster's own cutoff "
                   "from %s to %s" % (cut_before, cut_after), op="update_predict")
        if self.prop == "C03":
            if follows:  # (inner cutoffs of composites are not restored by an earlier update_predict)
                self.check_c03_update_predict(i, outs, splits, cv_steps)
            return
        # C10: equals the manual loop of single updates and predicts on a copy
        # (comparable when the batch directly follows the cutoff, as in ordinary use)
        if "primary" not in copies or not follows:
            return
        g = copies["primary"]
        preds, cutoffs = [], []
        try:
            for tr, _ in splits:
                g.update(b.iloc[tr], update_params=up)
                preds.append(g.predict(cv_steps if len(cv_steps) > 1 else cv_steps))
                cutoffs.append(g.cutoff)
        except Exception as e:  # noqa
            # the loop of single calls fails where update_predict did not: not comparable
            self.note("manual_loop_raised", type(e).__name__)
            return
        self.res.probe("update_predict_checked")
        self.compare_update_predict(out, preds, cutoffs, cv_steps)
        # the gaps left by windows: positions not covered are unknown to the model;
        # make the model exact by reading nothing more.

    def _make_cv(self, cvs, actor):
        """The splitter whose windows the harness uses for its model (for
        cv=None: the documented default, a sliding window over the horizon)."""
        if cvs is None:
            return _default_cv(actor)
        return C.build_cv(cvs)

    def compare_update_predict(self, out, preds, cutoffs, cv_steps):
        if len(cv_steps) == 1:
            exp = pd.concat(preds)
            if not isinstance(out, pd.Series) or not C.same_series(out, exp):
                self.v("update_predict_differs",
                       "update_predict (1-step) returned %s, the sequence of single updates and "
                       "predicts gives %s" % (C.fmt(out), C.fmt(exp)), op="update_predict",
                       steps="single")
            return
        if isinstance(out, pd.Series) and len(preds) == 1:
            if not C.same_series(out, preds[0]):
                self.v("update_predict_differs", "update_predict (one split) returned %s, manual "
                       "update+predict gives %s" % (C.fmt(out), C.fmt(preds[0])),
                       op="update_predict", steps="multi")
            return
        if not isinstance(out, pd.DataFrame):
            self.v("update_predict_differs", "update_predict returned %s for %d splits x %d steps"
                   % (type(out).__name__, len(preds), len(cv_steps)), op="update_predict",
                   steps="multi")
            return
        if not C.same_index(list(out.columns), cutoffs):
            self.v("update_predict_labels", "update_predict columns %s are not the cutoffs of the "
                   "single updates %s" % (list(out.columns)[:6], cutoffs[:6]),
                   op="update_predict")
            return
        for j, (p, c) in enumerate(zip(preds, cutoffs)):
            col = out.iloc[:, j].reindex(p.index)
            if not C.same_series(col, p) or int(out.iloc[:, j].notna().sum()) != int(p.notna().sum()):
                self.v("update_predict_differs",
                       "update_predict column for cutoff %s is %s, the single update+predict "
                       "gives %s" % (c, C.fmt(col), C.fmt(p)), op="update_predict", steps="multi")
                return

    # ---- invariants after every step (both properties)
    def check_state(self, i, op):
        for who, actor in (("primary", self.a), ("twin", self.tw)):
            if actor is None:
                continue
            f = actor.f
            try:
                cutoff = f.cutoff
            except Exception as e:  # noqa
                self.v("cutoff_unreadable", "cutoff raised %s" % type(e).__name__, op=op["op"])
                return
            exp = actor.label(actor.cut)
            if cutoff != exp:
                self.v("wrong_cutoff", "after %s #%d the cutoff is %s, the last time point of the "
                       "data passed is %s (%s)" % (op["op"], i, cutoff, exp, who), op=op["op"])
                return
        if self.prop != "C10":
            return
        f = self.a.f
        y_in = getattr(f, "_y", None)
        if y_in is not None and self.spec["kind"] != "gscv":
            exp = self.a.seen_series()
            ok = len(y_in) == len(exp) and C.same_index(
                [_key(l) for l in y_in.index], [_key(l) for l in exp.index]) and \
                C.same_values(y_in.values, exp.values, exact=True)
            if not ok:
                bad = "length %d vs %d" % (len(y_in), len(exp))
                if len(y_in) == len(exp):
                    d = np.where(~np.isclose(np.asarray(y_in.values, float), exp.values))[0]
                    bad = "first difference at %s: remembered %s, given %s" % (
                        (exp.index[d[0]], y_in.values[d[0]], exp.values[d[0]]) if len(d) else
                        ("index", list(y_in.index[:3]), list(exp.index[:3])))
                self.v("memory_not_union", "after %s #%d the remembered series is not the union of "
                       "the observations given (later wins): %s" % (op["op"], i, bad), op=op["op"])
                return
        X_in = getattr(f, "_X", None)
        if self.a.X is not None and self.spec["kind"] != "gscv":
            expX = self.a.seen_X()
            okx = X_in is not None and X_in.shape == expX.shape and C.same_index(
                list(X_in.index), list(expX.index)) and C.same_values(X_in.values, expX.values, exact=True)
            if not okx:
                self.v("exog_memory_not_union", "after %s #%d the remembered exogenous data is not the "
                       "union of the rows given (shape %s vs %s)" % (
                           op["op"], i, getattr(X_in, "shape", None), expX.shape), op=op["op"])

    # ---- C10 oracles on predictions
    def check_c10_prediction(self, i, p, steps):
        a = self.a
        if not isinstance(p, pd.Series):
            return
        fhs = {"steps": steps, "abs": False}
        if self.spec["kind"] == "gscv" and self.refit_clean and self.updates_since_fit > 0 \
                and C.refits_on_update(self.spec["forecaster"]):
            # a tuned forecaster: after updates that refit, the forecasts are those of a fresh
            # forecaster with the SAME best parameters fitted on everything seen
            with peers.paused():
                try:
                    from sklearn.base import clone as _clone
                    twin = _clone(a.f.best_forecaster_)
                    fit_fh = _mk_fh(self.fit_fh, None, a.kind) if self.fit_fh else None
                    twin.fit(a.seen_series(), fh=fit_fh)
                    q = twin.predict(self._twin_fh(fhs))
                except Exception as e:  # noqa
                    self.note("twin_raised", type(e).__name__)
                    return
            self.res.probe("refit_equivalence_checked")
            if not C.same_series(p, q):
                self.v("refit_equivalence",
                       "tuned forecaster after fit+update(s): predict(%s) gives %s, a fresh forecaster "
                       "with the same best parameters fitted on all data seen gives %s" % (
                           steps, C.fmt(p), C.fmt(q)), op="predict", tuned=True)
        elif self.refit_clean and self.updates_since_fit > 0 and (
                C.refits_on_update(self.spec) or _pointwise_pipeline(self.spec)):
            # fresh forecaster fitted once on everything seen
            with peers.paused():
                try:
                    twin = C.build(self.spec)
                    fit_fh = _mk_fh(self.fit_fh, None, a.kind) if self.fit_fh else None
                    s2 = sched.Scheduler("fifo", 0)
                    with sched.scenario_schedule(s2):
                        twin.fit(a.seen_series(), X=a.seen_X(), fh=fit_fh)
                        q = twin.predict(self._twin_fh(fhs))
                except Exception as e:  # noqa
                    self.note("twin_raised", type(e).__name__)
                    return
            self.res.probe("refit_equivalence_checked")
            if not C.same_series(p, q):
                self.v("refit_equivalence",
                       "after fit+update(s) predict(%s) gives %s, a fresh forecaster fitted on all "
                       "data seen gives %s" % (steps, C.fmt(p), C.fmt(q)), op="predict")
        elif self.snap_fit is not None and len(self.since_fit) >= 2 and self.all_up \
                and _batching_invariant(self.spec) and not self.after_upd:
            # several updates with update_params=True == one update with all of their data:
            # these updates recompute their parameters from the whole remembered series (Theta:
            # trend; stacking: members refitted, meta-learner untouched)
            with peers.paused():
                try:
                    g = pickle.loads(self.snap_fit)
                    union = pd.concat(self.since_fit)
                    union = union[~union.index.duplicated(keep="last")].sort_index()
                    s2 = sched.Scheduler("fifo", 0)
                    with sched.scenario_schedule(s2):
                        g.update(union, update_params=True)
                        q = g.predict(self._twin_fh(fhs))
                except Exception as e:  # noqa
                    self.note("batching_twin_raised", type(e).__name__)
                    return
            self.res.probe("batching_invariance_checked")
            if not C.same_series(p, q):
                self.v("update_depends_on_batching", "after %d updates predict(%s) gives %s, the "
                       "forecaster as of its fit given the same observations in one update gives %s"
                       % (len(self.since_fit), steps, C.fmt(p), C.fmt(q)), op="predict")
        elif self.snap_refit is not None and self.since_refit:
            # parameter updating disabled: a copy from the last (re)fit given the same
            # observations in one batch must forecast the same, and the fitted
            # parameters must be those of the last fit
            with peers.paused():
                try:
                    g = pickle.loads(self.snap_refit)
                    params_before = _fitted_params(g)
                    union = pd.concat(self.since_refit)
                    union = union[~union.index.duplicated(keep="last")].sort_index()
                    g.update(union, X=a.xbatch(union), update_params=False)
                    q = g.predict(self._twin_fh(fhs))
                    params_now = _fitted_params(a.f)
                except Exception as e:  # noqa
                    self.note("noparam_twin_raised", type(e).__name__)
                    return
            self.res.probe("no_param_update_checked")
            if not C.same_series(p, q):
                self.v("no_param_update_forecast",
                       "with update_params=False predict(%s) gives %s, the forecaster as of its "
                       "last fit given the same observations at once gives %s" % (
                           steps, C.fmt(p), C.fmt(q)), op="predict")
            elif params_before is not None and params_now is not None and \
                    params_before != params_now:
                self.v("params_changed_without_update",
                       "fitted parameters changed although every update since the last fit had "
                       "update_params=False", op="update")
            elif _time_only(self.spec) and a.kind != "period":
                self.check_frozen_time_only(p, steps)

    def _twin_fh(self, fhs):
        """The horizon argument for a twin's predict: the given steps - unless the forecaster was
        fitted with an absolute horizon it depends on, then (like the forecaster under test) the
        twin answers for the remembered time points."""
        if self.fit_fh and self.fit_fh.get("abs") and C.needs_fh_at_fit(self.spec):
            return None
        return _mk_fh(fhs, None, self.a.kind)

    def check_frozen_time_only(self, p, steps):
        """A model that is a function of (fitted parameters, time point) only: with the
        parameters frozen, the forecast for a time point is the one the forecaster as of its
        last fit makes for that same time point from its older cutoff."""
        a = self.a
        labels = [int(a.label(a.cut)) + int(s_) for s_ in steps]
        with peers.paused():
            try:
                from sktime.forecasting.base import ForecastingHorizon
                g2 = pickle.loads(self.snap_refit)
                q2 = g2.predict(ForecastingHorizon(pd.Index(labels, dtype=np.int64),
                                                   is_relative=False))
            except Exception as e:  # noqa
                self.note("abs_time_twin_raised", type(e).__name__)
                return
        self.res.probe("frozen_model_same_time_points_checked")
        if not C.same_series(p, q2) and _contains(self.spec, lambda s_: s_["kind"] == "theta"):
            # (a known finding, see known_findings.json: reported once, at the end of the
            # history, so that it does not cut the history short)
            if not self.deferred:
                self.deferred.append(("frozen_forecast_moves_with_cutoff",
                                      "ThetaForecaster, parameters frozen (update_params=False), cutoff "
                                      "moved to %s: predict(%s) gives %s for the time points %s; the "
                                      "forecaster as of its last fit gives %s for those time points" % (
                                          a.label(a.cut), steps, C.fmt(p), labels[:5], C.fmt(q2))))
            return
        if not C.same_series(p, q2):
            self.v("forecast_not_from_new_cutoff",
                   "parameters frozen (update_params=False), cutoff moved to %s: predict(%s) "
                   "gives %s for the time points %s; the forecaster as of its last fit gives "
                   "%s for those time points" % (a.label(a.cut), steps, C.fmt(p), labels[:5],
                                                 C.fmt(q2)), op="predict", after_update=True)

    # ---- C03 oracles
    def check_c03_prediction(self, i, p, ptw, steps, fhs):
        a, tw = self.a, self.tw
        if self.snap_refit is not None and self.since_refit and not self.refit_clean \
                and _time_only(self.spec) and a.kind != "period" and isinstance(p, pd.Series) \
                and not self.after_upd and not self.stale_state:
            # the value under a label must be the forecast FOR that time point
            self.check_frozen_time_only(p, steps)
            if self.res.violations:
                return
        if self.updates_since_fit:
            self.res.probe("predict_after_update")
            self.checked_after_update += 1
        if fhs is None:
            self.res.probe("fh_reused_across_cutoffs")
        if fhs and fhs.get("abs"):
            self.res.probe("absolute_fh")
        if steps != list(range(1, len(steps) + 1)):
            self.res.probe("gapped_fh")
        if fhs and fhs.get("unsorted"):
            self.res.probe("unsorted_fh")
        if fhs and fhs.get("form") == "index":
            self.res.probe("fh_as_index")
        for who, actor, pred in (("primary", a, p), ("twin", tw, ptw)):
            if pred is None:
                continue
            if not isinstance(pred, pd.Series):
                self.v("not_a_series", "predict returned %s" % type(pred).__name__, op="predict")
                return
            exp_idx = _expected_index(steps, actor.label(actor.cut))
            if len(pred) != len(steps):
                self.v("wrong_length", "predict(%s) returned %d values for %d requested steps (%s)"
                       % (steps, len(pred), len(steps), who), op="predict")
                return
            if not C.same_index(list(pred.index), exp_idx):
                self.v("wrong_index", "predict(%s %s) from cutoff %s is labelled %s, expected %s (%s)"
                       % ("absolute" if fhs and fhs.get("abs") else "relative", steps,
                          actor.label(actor.cut), list(pred.index)[:6], exp_idx[:6], who),
                       op="predict", after_update=self.updates_since_fit > 0)
                return
            if actor.kind == "period" and not isinstance(pred.index, pd.PeriodIndex):
                self.v("index_type", "forecast index is %s for a PeriodIndex series"
                       % type(pred.index).__name__, op="predict")
                return
            if not np.all(np.isfinite(np.asarray(pred.values, dtype=float))) and \
                    not C._contains_kind(self.spec, ("boxcox",)):  # Box-Cox has a bounded domain
                self.v("nonfinite", "predict(%s) has non-finite values %s for finite data (%s)"
                       % (steps, C.fmt(pred), who), op="predict")
                return
        if ptw is not None:
            self.res.probe("shifted_twin_checked")
            if not C.same_values(p.values, ptw.values):
                self.v("shift_changes_values",
                       "shifting the time index by %d changes the forecast: %s vs %s" % (
                           self.scen["shift"], C.fmt(p), C.fmt(ptw)), op="predict",
                       after_update=self.updates_since_fit > 0)
                return
        # the value at step h must not depend on which other steps were requested
        if not C.needs_fh_at_fit(self.spec) and steps != list(range(1, max(steps) + 1)):
            with peers.paused():
                try:
                    g = pickle.loads(pickle.dumps(a.f))
                    s2 = sched.Scheduler("fifo", 0)
                    with sched.scenario_schedule(s2):
                        full = g.predict(list(range(1, max(steps) + 1)))
                except Exception as e:  # noqa
                    self.note("contiguous_raised", type(e).__name__)
                    return
            self.res.probe("gapped_vs_contiguous_checked")
            sub = full.iloc[[s - 1 for s in steps]]
            if not C.same_values(sub.values, p.values):
                self.v("gapped_horizon_values",
                       "predict(%s) gives %s but the same steps taken from predict(1..%d) are %s"
                       % (steps, C.fmt(p), max(steps), C.fmt(sub)), op="predict")

        elif self.spec["kind"] == "reduce" and self.spec["strategy"] in ("direct", "multioutput") \
                and self.refit_clean and steps != list(range(1, max(steps) + 1)) \
                and not self.scen.get("exog"):
            # horizon-dependent reductions learn one model (or output column) per step from the
            # same windows: the forecast for step h is the same whether the horizon was [.., h, ..]
            # or 1..max
            with peers.paused():
                try:
                    twin = C.build(self.spec)
                    s2 = sched.Scheduler("fifo", 0)
                    with sched.scenario_schedule(s2):
                        twin.fit(a.seen_series(), fh=list(range(1, max(steps) + 1)))
                        full = twin.predict()
                except Exception as e:  # noqa
                    self.note("contiguous_raised", type(e).__name__)
                    return
            self.res.probe("gapped_vs_contiguous_checked")
            sub = full.iloc[[s_ - 1 for s_ in steps]]
            if not C.same_values(sub.values, p.values):
                self.v("gapped_horizon_values",
                       "fitted with the horizon %s the forecasts are %s; a fresh forecaster fitted on "
                       "the same data with the horizon 1..%d gives %s for those steps"
                       % (steps, C.fmt(p), max(steps), C.fmt(sub)), op="predict", at_fit=True)

    def check_c03_update_predict(self, i, outs, splits, cv_steps):
        """Labels of update_predict: forecasts for cutoff c are labelled c + step."""
        for (actor, o) in zip(self.actors(), outs):
            out, b = o[0], o[1]
            exp_cut = [b.index[tr[-1]] if len(tr) else b.index[0] - 1 for tr, _ in splits]
            if len(cv_steps) == 1:
                exp_idx = [c + cv_steps[0] for c in exp_cut]
                if not isinstance(out, pd.Series) or not C.same_index(list(out.index), exp_idx):
                    self.v("update_predict_index", "update_predict(1-step) is labelled %s, expected "
                           "cutoff+step %s" % (list(getattr(out, "index", []))[:6], exp_idx[:6]),
                           op="update_predict")
                    return
            elif isinstance(out, pd.DataFrame):
                if not C.same_index(list(out.columns), exp_cut):
                    self.v("update_predict_index", "update_predict columns %s are not the cutoffs %s"
                           % (list(out.columns)[:6], exp_cut[:6]), op="update_predict")
                    return
                for j, c in enumerate(exp_cut):
                    col = out.iloc[:, j]
                    exp_idx = [c + s for s in cv_steps]
                    # every requested label is present; no value sits at any other label (a
                    # forecast may itself be NaN, e.g. outside Box-Cox's domain)
                    missing = [t for t in exp_idx if t not in col.index]
                    stray = [t for t in col.dropna().index if t not in exp_idx]
                    if missing or stray:
                        self.v("update_predict_index", "update_predict column %s is labelled %s, "
                               "expected %s" % (c, list(col.dropna().index)[:6], exp_idx[:6]),
                               op="update_predict")
                        return
        if len(outs) > 1:
            o1, o2 = outs[0][0], outs[1][0]
            if not C.same_values(np.asarray(o1, dtype=float), np.asarray(o2, dtype=float)):
                self.v("shift_changes_values", "shifting the time index by %d changes "
                       "update_predict values" % self.scen["shift"], op="update_predict",
                       after_update=True)


class _FaultyCV:
    """A caller-supplied splitter (peer) that fails after yielding k windows."""

    def __new__(cls, inner, k):
        from sktime.forecasting.model_selection._split import BaseSplitter

        class FaultyCV(BaseSplitter):
            def __init__(self):
                self._inner, self._k = inner, k
                self.fh = inner.fh
                self.window_length = inner.window_length

            def split(self, y):
                for j, pair in enumerate(self._inner.split(y)):
                    if j >= self._k:
                        raise peers.InjectedFault("splitter failed after %d windows" % self._k)
                    yield pair

            def get_fh(self):
                return self._inner.get_fh()
        return FaultyCV()


def _pointwise_pipeline(spec):
    """A pipeline whose transformers are parameter-free and pointwise (log) around a forecaster
    that refits on update: update(update_params=True) then equals a fresh fit on all data."""
    if spec["kind"] != "ttf":
        return False

    def t_ok(t):
        if t["kind"] == "optional":
            return t_ok(t["transformer"])
        return t["kind"] == "log"
    return all(t_ok(t) for t in spec["transformers"]) and C.refits_on_update(spec["forecaster"])


def _batching_invariant(spec):
    """update(update_params=True) recomputes everything it recomputes from the whole remembered
    series: Theta, stacking, and pipelines whose transformers learn nothing in update
    (seasonal components and Box-Cox lambda stay those of fit; a Detrender would re-estimate
    its trend and leave the earlier transformed history as it was, which legitimately depends
    on the batching)."""
    k = spec["kind"]
    if k in ("theta", "stack"):
        return True
    if k == "ttf":
        def t_ok(t):
            if t["kind"] == "optional":
                return t_ok(t["transformer"])
            return t["kind"] in ("deseason", "cdeseason", "log", "boxcox")
        f = spec["forecaster"]
        return all(t_ok(t) for t in spec["transformers"]) and f["kind"] in ("naive", "trend")
    return False


def _time_only(spec):
    """Forecast = f(fitted parameters, time point): no dependence on the latest observations."""
    k = spec["kind"]
    if k in ("trend", "expsm", "ets", "theta"):
        # (smoothing models: with frozen parameters the fitted state is that of the last fit,
        # and the forecast for a time point is an extrapolation from there)
        return True
    if k in ("ensemble", "stack"):
        # (stacking: the meta-learner is a function of the members' forecasts and is left
        # untouched by updates)
        return all(_time_only(m) for m in spec["members"])
    if k == "mux":
        return _time_only(spec["members"][spec["selected"]])
    if k == "ttf":
        def t_ok(t):
            if t["kind"] == "optional":
                return t_ok(t["transformer"])
            if t["kind"] == "detrend":
                return t.get("forecaster") is None or _time_only(t["forecaster"])
            return t["kind"] in ("log", "deseason")
        return all(t_ok(t) for t in spec["transformers"]) and _time_only(spec["forecaster"])
    return False


def _default_cv(actor):
    from sktime.forecasting.model_selection import SlidingWindowSplitter
    wl = getattr(actor.f, "window_length_", None)
    if wl is not None:
        return SlidingWindowSplitter(fh=actor.fh_steps, window_length=wl,
                                     start_with_window=False)
    return SlidingWindowSplitter(fh=actor.fh_steps, start_with_window=False)


def _fitted_params(f):
    """Fitted parameters as comparable data, or None when not offered."""
    try:
        p = f.get_fitted_params()
    except Exception:
        p = None
    out = {}
    if isinstance(p, dict):
        for k, v in p.items():
            try:
                out[k] = repr(np.round(np.asarray(v, dtype=float), 10).tolist())
            except Exception:
                out[k] = repr(v)
    for name in ("window_length_", "sp_", "trend_", "initial_level_"):
        if hasattr(f, name):
            try:
                out[name] = repr(float(getattr(f, name)))
            except Exception:
                pass
    reg = getattr(f, "regressor_", None)
    if reg is not None:
        try:
            out["regressor_"] = repr(np.round(reg.steps[-1][1].coef_, 10).tolist())
        except Exception:
            pass
    est = getattr(f, "estimator_", None)
    if est is not None and hasattr(est, "coef_"):
        out["estimator_"] = repr(np.round(np.asarray(est.coef_, float), 10).tolist())
    return out or None


# ------------------------------------------------------------------ shrinking
def _simplify_spec(spec):
    """Candidate simpler specs."""
    k = spec["kind"]
    if k in ("ensemble", "mux", "stack"):
        ms = spec["members"]
        if k != "stack":
            for m in ms:
                yield m
        if len(ms) > 2:
            for i in range(len(ms)):
                new = ms[:i] + ms[i + 1:]
                s2 = dict(spec, members=new)
                if k == "mux":
                    s2["selected"] = min(spec["selected"], len(new) - 1)
                yield s2
        if spec.get("n_jobs"):
            yield dict(spec, n_jobs=None)
        for i, m in enumerate(ms):
            for m2 in _simplify_spec(m):
                yield dict(spec, members=ms[:i] + [m2] + ms[i + 1:])
    elif k == "ttf":
        yield spec["forecaster"]
        ts = spec["transformers"]
        if len(ts) > 1:
            for i in range(len(ts)):
                yield dict(spec, transformers=ts[:i] + ts[i + 1:])
        for f2 in _simplify_spec(spec["forecaster"]):
            yield dict(spec, forecaster=f2)
    elif k == "naive":
        if spec.get("sp", 1) != 1:
            yield dict(spec, sp=1)
        if spec.get("window_length"):
            yield dict(spec, window_length=None)
    elif k == "trend" and spec.get("degree", 1) > 1:
        yield dict(spec, degree=1)
    elif k in ("expsm", "ets", "theta"):
        yield {"kind": "naive", "strategy": "last", "sp": 1, "window_length": None}


def shrink_candidates(prop, scen):
    s = json.loads(json.dumps(scen))
    ops = s["ops"]
    # drop ops (never the fit)
    for cand in ddmin_list(ops[1:]):
        yield dict(s, ops=[ops[0]] + cand)
    for spec2 in _simplify_spec(s["spec"]):
        s2 = dict(s, spec=spec2)
        if C.needs_fh_at_fit(spec2) and not ops[0].get("fh"):
            continue
        yield s2
    if s["sched"]["mode"] != "fifo":
        yield dict(s, sched=dict(s["sched"], mode="fifo"))
    if s["series"]["origin"] != 0:
        yield dict(s, series=dict(s["series"], origin=0))
    if s["series"]["index"] != "range":
        yield dict(s, series=dict(s["series"], index="range"))
    if s.get("shift") not in (0, 1):
        yield dict(s, shift=1)
    # argument shrinking inside ops
    for i, op in enumerate(ops):
        for key, small in (("overlap", 0), ("change", False), ("take", 1)):
            if key in op and op[key] not in (small, None) and not (key == "take" and op["op"] == "upd"):
                o2 = dict(op)
                o2[key] = small
                yield dict(s, ops=ops[:i] + [o2] + ops[i + 1:])
        if op.get("fh") and len(op["fh"]["steps"]) > 1 and not C.needs_fh_at_fit(s["spec"]):
            for st in op["fh"]["steps"]:
                o2 = dict(op, fh=dict(op["fh"], steps=[st]))
                yield dict(s, ops=ops[:i] + [o2] + ops[i + 1:])
        if op.get("fh") and op["fh"].get("abs"):
            o2 = dict(op, fh=dict(op["fh"], abs=False))
            yield dict(s, ops=ops[:i] + [o2] + ops[i + 1:])
        if op["op"] == "fit" and op["n"] > 14:
            need = C.min_train_len(s["spec"], 8)
            if need < op["n"]:
                yield dict(s, ops=[dict(op, n=max(need, op["n"] // 2))] + ops[1:])
