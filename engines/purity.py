# -*- coding: utf-8 -*-
"""C12 - applying an estimator is pure, reproducible and independent of scheduling.

For one estimator per scenario: caller-owned inputs are deep-snapshotted around
every call (fit included); a history of apply-type calls in random order with
repeats and pickling is compared, call by call, with a lock-step twin (a pickled
copy taken right after fit that receives only the call under comparison); a
sibling with equal parameters is fitted under another n_jobs and another
simulated schedule and must return bit-identical results."""
import hashlib
import json
import pickle

import numpy as np
import pandas as pd

from engines import common as C
from simkit import peers, sched
from simkit.core import RunResult, ddmin_list, short_hash

LEVEL = {"C12": "exploration"}
TIERS = {"C12": (1800, 160, 50000, 1200)}
PROBES = {"C12": ["fit_input_checked", "apply_input_checked", "twin_compared", "sibling_compared",
                  "parallel_fit_tasks", "parallel_apply_tasks", "interleave_schedule",
                  "pickle_midway", "nested_series_cells", "nested_array_cells", "numpy3d_input",
                  "dataframe_series_input", "int_index_input",
                  "triggering_condition_present", "refit_compared_with_fresh", "interloper_ran",
                  "repeat_compared_with_first", "longer_series_than_in_fit",
                  "reconfigured_refit_compared_with_fresh", "update_input_checked"]}
FAULT_KINDS = {"C12": ["schedule_ooo", "schedule_interleave", "pickle_roundtrip", "repeat_call",
                       "other_instance_interleaved"]}
RULE = {"C12": (
    "seeded (estimator x parameters x input container x call history x n_jobs pair x schedule "
    "pair); apply-type calls in random order with repeats, pickling injected at random points. "
    "Non-trivial = at least three apply calls compared with the twin and (a sibling fitted under a "
    "different n_jobs/schedule with >=2 simulated parallel tasks, or a pickle in the history); "
    "distinct = canonical scenario JSON + schedule trace.")}
ASSUMPTIONS = {"C12": [
    "Rocket-family kernels are excluded from the schedule clause (np.random.seed inside the numba "
    "stub is process-global, an artefact of the stub)",
    "pre-emption only at entries of /repo functions"]}


PANEL_TRANSFORMERS = {
    "ColumnConcatenator": {}, "PAA": {"num_intervals": [2, 4]}, "SAX": {"word_length": [4], "window_size": [8]},
    "DWTTransformer": {"num_levels": [1, 2]}, "HOG1DTransformer": {}, "TSInterpolator": {"length": [8, 20]},
    "PaddingTransformer": {"pad_length": [None, None, 40]}, "Tabularizer": {},
    "RandomIntervalSegmenter": {"n_intervals": [2, "sqrt", "random"]},
    "SlidingWindowSegmenter": {"window_length": [3, 5]}, "SlopeTransformer": {"num_intervals": [2, 4]},
    "DerivativeSlopeTransformer": {}, "PlateauFinder": {"value": [0.0, "default", "default"]},
    "RandomIntervalFeatureExtractor": {"n_intervals": [2, "sqrt", "random"]},
    "TruncationTransformer": {"lower": [None, None, 8, 12]},
    "MatrixProfile": {"m": [4]}, "SFA": {"word_length": [4], "window_size": [8], "anova": [False, True]},
    # (no Parallel inside: only the input-mutation, repeat-call and pickle clauses bite here)
    "Rocket": {"num_kernels": [20, 50], "normalise": [True, True, False]},
    "MiniRocket": {"num_features": [84]},
    "PCATransformer": {"n_components": [2, 3]},
    "MiniRocketMultivariate": {"num_features": [84]},
    "IntervalSegmenter": {"intervals": [2, 3, "@rows", "@rows"]},
    "FeatureUnion": {}, "SeriesToSeriesRowTransformer": {}, "SeriesToPrimitivesRowTransformer": {},
    "FittedParamExtractor": {},
}
CLASSIFIERS = {
    "TimeSeriesForestClassifier": {"n_estimators": [3, 5], "min_interval": [3]},
    "SupervisedTimeSeriesForest": {"n_estimators": [3, 4]},
    "RandomIntervalSpectralForest": {"n_estimators": [3], "min_interval": [8], "acf_lag": [4],
                                     "acf_min_values": [2]},
    "BOSSEnsemble": {"max_ensemble_size": [2, 3, 50, 50]},
    "IndividualBOSS": {"window_size": [8, 10], "word_length": [4, 6]},
    "ContractableBOSS": {"n_parameter_samples": [4], "max_ensemble_size": [2]},
    "MUSE": {},
    "ColumnEnsembleClassifier": {},
}
REGRESSORS = {"TimeSeriesForestRegressor": {"n_estimators": [3, 5], "min_interval": [3]}}
SERIES_EXTRA = ["hampel", "imputer", "acf", "pacf", "cos", "mean"]


def _find_class(name):
    from engines.registry import all_estimator_classes
    for q, c, k in all_estimator_classes():
        if c.__name__ == name:
            return c
    raise KeyError(name)


def generate(prop, rng, tier):
    big = tier == "thorough"
    cat = rng.choice(["forecaster", "forecaster", "series", "series", "panel", "classifier",
                      "classifier", "regressor"])
    scen = {"cat": cat, "seed": 0,
            "data": {"seed": rng.randint(0, 10 ** 6), "origin": rng.choice([0, 0, 5, 100, -7]),
                     "index": rng.choice(["range", "int", "int"])},
            "n_jobs": rng.choice([None, 1, 2, 4]), "sib_n_jobs": rng.choice([None, 1, 2, 4]),
            "sched": {"mode": rng.choice(["fifo", "ooo", "interleave"]), "seed": rng.randint(0, 10 ** 6),
                      "p": rng.choice([0.01, 0.05, 0.2])},
            "sib_sched": {"mode": rng.choice(["ooo", "interleave", "interleave"]),
                          "seed": rng.randint(0, 10 ** 6), "p": rng.choice([0.01, 0.05, 0.2])},
            "random_state": rng.choice([0, rng.randint(0, 99), rng.randint(0, 99), rng.randint(0, 99)])}
    if cat == "forecaster":
        spec = C.gen_forecaster(rng, depth=rng.choice([0, 0, 1, 2]), allow_slow=rng.random() < 0.25)
        r1 = rng.random()
        if r1 > 0.95:
            # a tuned forecaster: its candidates are evaluated by parallel tasks
            spec = {"kind": "gscv", "forecaster": {"kind": "naive", "strategy": "last", "sp": 1,
                                                   "window_length": None},
                    "cv": {"type": "sliding", "window": rng.choice([4, 5, 6]), "step": rng.choice([1, 2, 3]),
                           "fh": [1, 2]},
                    "grid": {"strategy": ["last", "mean", "drift"], "window_length": [3, 4]},
                    "n_jobs": rng.choice([2, 3, 4]), "refit": True}
        if r1 < 0.08:
            spec = {"kind": "theta", "sp": rng.choice([2, 4]), "deseasonalize": True}
        elif r1 < 0.2:
            # a pipeline whose treatment of a step depends on that step's tags
            inner = rng.choice([{"kind": "deseason", "sp": rng.choice([2, 4]), "model": "additive"},
                                {"kind": "detrend", "forecaster": None}])
            spec = {"kind": "ttf", "transformers": [{"kind": "optional", "transformer": inner,
                                                     "passthrough": False}],
                    "forecaster": {"kind": "naive", "strategy": rng.choice(["last", "drift"]), "sp": 1,
                                   "window_length": None}}
        scen["spec"] = spec
        steps = sorted(rng.sample(range(1, 8), rng.randint(1, 3)))
        scen["fh_fit"] = steps if C.needs_fh_at_fit(spec) or rng.random() < 0.3 else None
        scen["n"] = C.min_train_len(spec, 8) + rng.randint(1, 15)
        calls = []
        for _ in range(rng.randint(3, 8)):
            if scen["fh_fit"] and C.needs_fh_at_fit(spec):
                calls.append({"m": "predict", "fh": steps})
            elif rng.random() < 0.2:
                # in-sample / mixed horizons (a forecaster that cannot do them must fail the
                # same way on the twin)
                calls.append({"m": "predict", "fh": rng.choice([
                    [-2, -1, 0], [-1, 1, 2], [0], [-3, 2], [-(scen["n"] - 2), -3], [-(scen["n"] - 1)]])})
            else:
                calls.append({"m": "predict", "fh": sorted(rng.sample(range(1, 8), rng.randint(1, 3)))})
                if rng.random() < 0.3:
                    # the horizon as a caller-owned numpy array, written in descending order
                    calls[-1]["fh_form"] = "array_desc"
                elif rng.random() < 0.15:
                    # the same integers first as steps ahead, then as time points
                    calls[-1]["fh_form"] = "ints_relative"
                    calls.append({"m": "predict", "fh": calls[-1]["fh"], "fh_form": "ints_absolute"})
    elif cat == "series":
        r0 = rng.random()
        if r0 < 0.1:
            spec = {"kind": "detrend", "forecaster": {"kind": "naive", "strategy": rng.choice(["mean", "last", "drift"]),
                                                      "sp": 1, "window_length": rng.choice([3, 4])}}
        elif r0 < 0.55:
            spec = C.gen_transformer(rng)
        else:
            k = rng.choice(SERIES_EXTRA)
            spec = {"kind": k}
            if k == "hampel":
                spec.update(window_length=rng.choice([3, 5, 7]), n_sigma=rng.choice([2, 3]),
                            return_bool=rng.random() < 0.2)
            if k == "imputer":
                spec.update(method=rng.choice(["drift", "linear", "nearest", "mean", "median", "ffill",
                                               "bfill", "random", "constant"]))
        scen["spec"] = spec
        scen["n"] = 16 + rng.randint(0, 20)
        base = spec
        while base["kind"] == "optional":
            base = base["transformer"]
        multi_ok = base["kind"] in ("hampel", "imputer", "log", "cos") and spec["kind"] != "optional"
        scen["container"] = "frame" if multi_ok and rng.random() < 0.4 else "series"
        calls = []
        for _ in range(rng.randint(3, 8)):
            calls.append({"m": rng.choice(["transform", "transform", "inverse_transform"]),
                          "a": rng.randint(0, 6), "len": rng.randint(9, 14),
                          "stride": rng.choice([1, 1, 1, 2])})
    elif cat == "panel":
        name = rng.choice(sorted(PANEL_TRANSFORMERS) + ["PaddingTransformer", "TruncationTransformer"])
        scen["name"] = name
        scen["params"] = {k: rng.choice(v) for k, v in PANEL_TRANSFORMERS[name].items()}
        scen["panel"] = {"n": rng.randint(5, 9), "cols": rng.choice([1, 1, 2]), "len": rng.choice([16, 20])}
        scen["container"] = rng.choice(["nested_series", "nested_series", "nested_array", "numpy3d"])
        if name in ("Rocket", "MiniRocket", "PCATransformer"):
            scen["container"] = rng.choice(["nested_series", "numpy3d", "numpy3d"])
            scen["panel"]["cols"] = 1
        if name == "MiniRocketMultivariate":
            scen["container"] = rng.choice(["nested_series", "numpy3d"])
            scen["panel"]["cols"] = 2
        if name in ("FeatureUnion", "SeriesToSeriesRowTransformer", "SeriesToPrimitivesRowTransformer",
                    "FittedParamExtractor", "IntervalSegmenter"):
            scen["container"] = "nested_series"
            scen["panel"]["cols"] = 1
        calls = [{"m": "transform", "which": rng.choice(["train", "test", "test", "long"])}
                 for _ in range(rng.randint(3, 6))]
        if name in ("FeatureUnion", "SeriesToSeriesRowTransformer", "SeriesToPrimitivesRowTransformer",
                    "FittedParamExtractor", "IntervalSegmenter"):
            calls = [c for c in calls if c["which"] != "long"] or [{"m": "transform", "which": "test"}]
        if name in ("PaddingTransformer", "TruncationTransformer") and rng.random() < 0.6:
            w = rng.choice(["train", "test"])
            calls += [{"m": "transform", "which": w}, {"m": "transform", "which": "long"},
                      {"m": "transform", "which": w}]
    else:
        table = CLASSIFIERS if cat == "classifier" else REGRESSORS
        # (BOSSEnsemble has separate sequential and parallel code paths: sampled more often)
        name = rng.choice(sorted(table) + (["BOSSEnsemble"] * 3 if cat == "classifier" else []))
        scen["name"] = name
        scen["params"] = {k: rng.choice(v) for k, v in table[name].items()}
        if name == "ColumnEnsembleClassifier" and rng.random() < 0.5:
            scen["params"]["_same"] = True   # both columns get equally configured members ...
            scen["shared_member"] = True     # ... and the primary is given one object twice
        scen["panel"] = {"n": rng.randint(8, 12), "cols": 2 if name in ("MUSE", "ColumnEnsembleClassifier") else 1,
                         "len": rng.choice([24, 32]),
                         # hard-to-separate classes make ties at imperfect training accuracy
                         "sep": rng.choice([1.5, 1.5, 0.8, 0.4])}
        if scen["panel"]["sep"] < 1.5 and name in ("BOSSEnsemble", "ContractableBOSS"):
            scen["panel"]["n"] = rng.randint(12, 20)
        if name == "BOSSEnsemble" and rng.random() < 0.8:
            scen["n_jobs"], scen["sib_n_jobs"] = rng.choice([(1, 2), (2, 1), (None, 4), (3, 1)])
            scen["params"]["max_ensemble_size"] = 50
            scen["panel"]["len"] = 32
        scen["container"] = rng.choice(["nested_series", "nested_series", "numpy3d"]) \
            if name != "ColumnEnsembleClassifier" else "nested_series"
        ms = ["predict", "predict_proba"] if cat == "classifier" else ["predict"]
        calls = [{"m": rng.choice(ms), "which": rng.choice(["train", "test", "test"])}
                 for _ in range(rng.randint(3, 6))]
    if cat == "series" and calls and rng.random() < 0.5:
        # the same start and the same number of points, once contiguous and once thinned out
        k = rng.randrange(len(calls))
        twin = dict(calls[k], stride=2 if calls[k].get("stride", 1) == 1 else 1)
        calls.insert(k + 1, twin)
    for c in calls:
        c["pickle_before"] = rng.random() < 0.15
    has_optional = '"optional"' in json.dumps(scen.get("spec", {}))
    if calls and rng.random() < (0.8 if has_optional else 0.35):
        # somebody else's estimator is built, fitted and used in between; afterwards an earlier
        # call is repeated
        k = rng.randrange(len(calls))
        calls.insert(k + 1, {"m": "interlope",
                             "what": "optional_other" if has_optional and rng.random() < 0.8
                             else rng.choice(["same_class", "optional_other", "same_args", "same_args"]),
                             "order": rng.sample([0, 1, 2], 3), "pickle_before": False})
        calls.insert(k + 2, dict(calls[rng.randrange(k + 1)], pickle_before=False))
    scen["calls"] = calls
    scen["variant_seed"] = rng.randint(0, 10 ** 6)
    return scen


# ------------------------------------------------------------------ snapshots
def snapshot(o):
    """Deep, comparable description of a caller-owned object."""
    if o is None:
        return None
    if isinstance(o, pd.Series):
        return ("S", str(o.dtype), type(o.index).__name__, str(o.index.dtype),
                _bytes(o.index), o.name if not isinstance(o.name, float) else repr(o.name),
                _cells(o.values))
    if isinstance(o, pd.DataFrame):
        return ("F", [str(c) for c in o.columns], [str(d) for d in o.dtypes],
                type(o.index).__name__, _bytes(o.index),
                [_cells(o.iloc[:, j].values) for j in range(o.shape[1])])  # (labels may repeat)
    if isinstance(o, np.ndarray):
        return ("A", str(o.dtype), o.shape, bool(o.flags.writeable),
                hashlib.sha256(np.ascontiguousarray(o).tobytes()).hexdigest())
    if isinstance(o, (list, tuple)):
        return ("L", [snapshot(x) for x in o])
    return ("R", repr(o))


def _bytes(idx):
    try:
        return hashlib.sha256(np.asarray(idx).tobytes()).hexdigest()[:16]
    except Exception:
        return repr(list(idx))


def _cells(values):
    if values.dtype != object:
        return hashlib.sha256(np.ascontiguousarray(values).tobytes()).hexdigest()[:16]
    out = []
    for v in values:
        if isinstance(v, (pd.Series, np.ndarray, pd.DataFrame)):
            out.append(snapshot(v))
        else:
            out.append(repr(v))
    return hashlib.sha256(repr(out).encode()).hexdigest()[:16]


def deep_equal(a, b):
    if type(a) is not type(b) and not (np.isscalar(a) and np.isscalar(b)):
        if isinstance(a, (pd.Series, pd.DataFrame, np.ndarray)) or isinstance(
                b, (pd.Series, pd.DataFrame, np.ndarray)):
            return False
    if isinstance(a, (pd.Series, pd.DataFrame, np.ndarray)):
        return snapshot(a) == snapshot(b)
    if isinstance(a, (list, tuple)):
        return len(a) == len(b) and all(deep_equal(x, y) for x, y in zip(a, b))
    try:
        if isinstance(a, float) and np.isnan(a) and np.isnan(b):
            return True
        return bool(a == b)
    except Exception:
        return repr(a) == repr(b)


# ------------------------------------------------------------------ data
def make_panel(seed, n, cols, length, container, index_kind, sep=1.5, nan_runs=False):
    rs = np.random.RandomState(seed)
    arr = np.round(rs.normal(size=(n, cols, length)) + np.arange(length) * 0.05, 4)
    arr[: n // 2, :, : length // 3] += sep  # two (more or less) separable classes
    if nan_runs:
        arr[::2, :, 3:6] = np.nan      # runs of missing values (plateaus of NaN)
        arr[1::3, :, length - 4:length - 2] = np.nan
    y = np.array(["a"] * (n // 2) + ["b"] * (n - n // 2))
    yr = np.round(arr[:, 0, :].mean(axis=1) + rs.normal(size=n) * 0.1, 4)
    if container == "numpy3d":
        return arr.copy(), y, yr
    data = {}
    for c in range(cols):
        if container == "nested_array":
            data["dim_%d" % c] = [arr[i, c, :].copy() for i in range(n)]
        else:
            idx = pd.RangeIndex(length) if index_kind == "range" else pd.Index(np.arange(length))
            data["dim_%d" % c] = [pd.Series(arr[i, c, :].copy(), index=idx) for i in range(n)]
    return pd.DataFrame(data), y, yr


def build_series_transformer(spec):
    k = spec["kind"]
    if k == "hampel":
        from sktime.transformations.series.outlier_detection import HampelFilter
        return HampelFilter(window_length=spec["window_length"], n_sigma=spec["n_sigma"],
                            return_bool=spec.get("return_bool", False))
    if k == "imputer":
        from sktime.transformations.series.impute import Imputer
        kw = {"method": spec["method"]}
        if spec["method"] == "constant":
            kw["value"] = 1.5
        if spec["method"] == "random":
            kw["random_state"] = 7
        return Imputer(**kw)
    if k == "acf":
        from sktime.transformations.series.acf import AutoCorrelationTransformer
        return AutoCorrelationTransformer(n_lags=4)
    if k == "pacf":
        from sktime.transformations.series.acf import PartialAutoCorrelationTransformer
        return PartialAutoCorrelationTransformer(n_lags=3)
    if k == "cos":
        from sktime.transformations.series.cos import CosineTransformer
        return CosineTransformer()
    if k == "mean":
        from sktime.transformations.series.summarize import MeanTransformer
        return MeanTransformer()
    return C.build_transformer(spec)


def build_named(name, params, n_jobs, random_state, shared=False):
    import inspect
    cls = _find_class(name)
    kw = {k: v for k, v in params.items() if not k.startswith("_") and v != "default"}
    if name == "IntervalSegmenter" and kw.get("intervals") == "@rows":
        # the intervals written out: one (start, end) row each
        kw["intervals"] = np.array([[0, 4], [2, 7], [5, 9]])
    sig = inspect.signature(cls.__init__).parameters
    if "n_jobs" in sig:
        kw["n_jobs"] = n_jobs
        if n_jobs is None and sig["n_jobs"].default is not None:
            kw["n_jobs"] = sig["n_jobs"].default  # documented as int (BOSS family)
    if "random_state" in sig:
        kw["random_state"] = random_state
    if name == "FeatureUnion":
        from sktime.transformations.panel.dictionary_based import PAA
        from sktime.transformations.panel.slope import SlopeTransformer
        kw["transformer_list"] = [("p", PAA(num_intervals=2)), ("s", SlopeTransformer(num_intervals=2))]
        kw.pop("n_jobs", None)
    if name == "SeriesToSeriesRowTransformer":
        from sklearn.preprocessing import StandardScaler
        kw.update(transformer=StandardScaler(), check_transformer=False)
    if name == "SeriesToPrimitivesRowTransformer":
        from sklearn.preprocessing import FunctionTransformer
        kw.update(transformer=FunctionTransformer(func=np.mean, validate=False), check_transformer=False)
    if name == "FittedParamExtractor":
        from sktime.forecasting.exp_smoothing import ExponentialSmoothing
        kw.update(forecaster=ExponentialSmoothing(), param_names=["initial_level"])
    if name == "ColumnEnsembleClassifier":
        from sktime.classification.interval_based import TimeSeriesForestClassifier
        if shared:
            # the same (unfitted) classifier object given for both columns; equal in every
            # parameter to the two separate objects of the sibling
            one = TimeSeriesForestClassifier(n_estimators=3, n_jobs=n_jobs, random_state=random_state)
            kw["estimators"] = [("a", one, [0]), ("b", one, [1])]
        else:
            kw["estimators"] = [
                ("a", TimeSeriesForestClassifier(n_estimators=3, n_jobs=n_jobs, random_state=random_state), [0]),
                ("b", TimeSeriesForestClassifier(n_estimators=3 if params.get("_same") else 2, n_jobs=n_jobs,
                                                 random_state=random_state + (0 if params.get("_same") else 1)), [1])]
    return cls(**kw)


def _set_n_jobs(spec, n_jobs):
    s = json.loads(json.dumps(spec))

    def walk(x):
        if isinstance(x, dict):
            if x.get("kind") in ("ensemble", "stack", "gscv"):
                x["n_jobs"] = n_jobs
            for v in x.values():
                walk(v)
        elif isinstance(x, list):
            for v in x:
                walk(v)
    walk(s)
    return s


# ------------------------------------------------------------------ execution
def execute(prop, scen):
    res = RunResult()
    peers.reset()
    C.reset_caches()
    np.random.seed(12345)
    cat = scen["cat"]
    digest = hashlib.sha256()
    d = scen["data"]
    label = scen.get("name") or (scen["spec"]["kind"] if scen["spec"]["kind"] != "reduce"
                                 else "reduce-" + scen["spec"]["strategy"])

    def v(cls, detail, **sig):
        sig.setdefault("estimator", label)
        res.violate("C12." + cls, detail, **sig)

    # ---- caller-owned data and builders
    if cat == "forecaster":
        y = C.make_series(d["seed"], scen["n"] + 2, d["origin"], d["index"], sp=4)
        train = lambda: (y.iloc[:scen["n"]].copy(),)  # noqa
        res.real.update(C.class_names(scen["spec"]))

        def build(n_jobs):
            return C.build(_set_n_jobs(scen["spec"], n_jobs))

        def fit(est, args):
            return est.fit(args[0], fh=scen["fh_fit"])

        def call_args(c):
            if c.get("fh_form") == "array_desc":
                return (np.array(sorted(c["fh"], reverse=True)),)
            if c.get("fh_form") in ("ints_relative", "ints_absolute"):
                last = int(y.index[scen["n"] - 1])
                if last < 0 or last > 60:
                    return ()
                ints = [last + int(s_) for s_ in c["fh"]]   # ahead of the cutoff either way
                if c["fh_form"] == "ints_relative":
                    return (ints,)
                from sktime.forecasting.base import ForecastingHorizon
                return (ForecastingHorizon(pd.Index(ints, dtype=np.int64), is_relative=False),)
            return ()

        def do_call(est, c, args):
            fh = None if (scen["fh_fit"] and C.needs_fh_at_fit(scen["spec"])) else \
                (args[0] if args else list(c["fh"]))
            return est.predict(fh)

        def other_train():
            return (y.iloc[2:scen["n"] + 2].copy(),)
    elif cat == "series":
        y = C.make_series(d["seed"], scen["n"] + 24, d["origin"], d["index"], sp=4, noise=0.8)
        base = scen["spec"]
        while base["kind"] == "optional":
            base = base["transformer"]
        if base["kind"] == "hampel":
            rs = np.random.RandomState(d["seed"] + 5)
            pos = rs.choice(len(y), size=max(2, len(y) // 7), replace=False)
            y.iloc[pos] = y.iloc[pos] + 50.0
            res.probe("triggering_condition_present")
        if base["kind"] == "imputer":
            rs = np.random.RandomState(d["seed"] + 6)
            pos = rs.choice(np.arange(1, len(y) - 1), size=max(2, len(y) // 6), replace=False)
            y.iloc[pos] = np.nan
            res.probe("triggering_condition_present")

        def wrap(s):
            if scen["container"] == "frame":
                res.probe("dataframe_series_input")
                return pd.DataFrame({"a": s.values, "b": s.values[::-1].copy()}, index=s.index)
            return s.copy()
        train = lambda: (wrap(y.iloc[:scen["n"]]),)  # noqa
        res.real.update(C.class_names(scen["spec"]) if scen["spec"]["kind"] not in SERIES_EXTRA
                        else {"transformations.series.%s" % scen["spec"]["kind"]})

        def build(n_jobs):
            return build_series_transformer(scen["spec"])

        def fit(est, args):
            return est.fit(args[0])

        def call_args(c):
            a = c["a"]
            st = c.get("stride", 1) if base["kind"] in ("deseason", "cdeseason", "detrend", "log",
                                                         "boxcox", "cos", "adapt") else 1
            return (wrap(y.iloc[a:a + c["len"] * st:st]),)

        def do_call(est, c, args):
            return getattr(est, c["m"])(args[0])

        def other_train():
            return (wrap(y.iloc[5:5 + scen["n"]]),)
    else:
        p = scen["panel"]
        sep = p.get("sep", 1.5)
        nanr = scen["name"] == "PlateauFinder" and scen["params"].get("value") == "default"
        if nanr:
            res.probe("triggering_condition_present")
        X, yc, yr = make_panel(d["seed"], p["n"], p["cols"], p["len"], scen["container"], d["index"], sep,
                               nan_runs=nanr)
        Xte, _, _ = make_panel(d["seed"] + 1, max(4, p["n"] // 2), p["cols"], p["len"],
                               scen["container"], d["index"], sep, nan_runs=nanr)
        target = yr if cat == "regressor" else yc
        res.probe({"nested_series": "nested_series_cells", "nested_array": "nested_array_cells",
                   "numpy3d": "numpy3d_input"}[scen["container"]])
        res.real.add(scen["name"])
        if "numba" in str(type(getattr(_find_class(scen["name"]), "fit", None))):
            pass

        def _copy(o):
            if isinstance(o, pd.DataFrame):
                return pd.DataFrame({c: [cell.copy() for cell in o[c]] for c in o.columns},
                                    index=o.index.copy())
            return o.copy()
        train = lambda: (_copy(X), target.copy())  # noqa

        _first = []

        def build(n_jobs):
            shared = bool(scen.get("shared_member")) and not _first
            _first.append(1)
            return build_named(scen["name"], scen["params"], n_jobs, scen["random_state"], shared=shared)

        def fit(est, args):
            return est.fit(args[0], args[1])

        tr_in, te_in = _copy(X), _copy(Xte)
        Xlong, _, _ = make_panel(d["seed"] + 3, max(4, p["n"] // 2), p["cols"], p["len"] + 6,
                                 scen["container"], d["index"])
        long_in = _copy(Xlong)

        def call_args(c):
            if c["which"] == "long":
                res.probes["longer_series_than_in_fit"] = 1
            return (tr_in if c["which"] == "train" else long_in if c["which"] == "long" else te_in,)

        def other_train():
            Xo_, yo_, yro_ = make_panel(d["seed"] + 4, p["n"], p["cols"], p["len"], scen["container"],
                                        d["index"], sep)
            return (Xo_, yro_ if cat == "regressor" else yo_)

        def do_call(est, c, args):
            return getattr(est, c["m"])(args[0])
    if d["index"] == "int":
        res.probe("int_index_input")
    res.stub.add("joblib backend: simkit SimBackend")
    if C.uses_stub(scen.get("spec", {"kind": "x"})) if cat == "forecaster" else False:
        res.stub.add("StubRegressor")
    if cat in ("panel", "classifier") and scen["name"] in ("BOSSEnsemble", "IndividualBOSS", "ContractableBOSS",
                                                          "MUSE", "SFA", "SAX", "PAA"):
        res.stub.add("numba (identity decorators)")

    # ---- primary: fit under schedule A
    est = build(scen["n_jobs"])
    args = train()
    snap = snapshot(args)
    rng_state = _rng_digest()
    sA = sched.Scheduler(scen["sched"]["mode"], scen["sched"]["seed"], scen["sched"]["p"])
    try:
        with sched.scenario_schedule(sA):
            fit(est, args)
    except Exception as e:  # noqa
        # an estimator that cannot be fitted on this data is not a purity matter
        res.digest = "fit_raised:" + type(e).__name__
        res.sched = sA.stats()
        res.probes["fit_not_possible"] = 1
        return res
    res.ops += 1
    res.probe("fit_input_checked")
    if snapshot(args) != snap:
        v("fit_mutates_input", "fit modified the caller's %s" % _what_changed(snap, snapshot(args)),
          method="fit", container=scen.get("container", "series"))
    if sA.n_tasks:
        res.probe("parallel_fit_tasks", sA.n_tasks)
    try:
        with peers.paused():
            twin_bytes = pickle.dumps(est)
    except Exception as e:  # noqa
        v("not_picklable", "fitted estimator cannot be pickled: %s: %s" % (type(e).__name__, str(e)[:120]))
        res.digest = "nopickle"
        return res
    # ---- sibling: equal parameters, other n_jobs, other schedule
    sib = build(scen["sib_n_jobs"])
    sB = sched.Scheduler(scen["sib_sched"]["mode"], scen["sib_sched"]["seed"], scen["sib_sched"]["p"])
    sib_ok = True
    try:
        with sched.scenario_schedule(sB):
            fit(sib, train())
    except Exception as e:  # noqa
        sib_ok = False
        v("sibling_fit_raised", "equal estimator with n_jobs=%s failed to fit under schedule %s: %s: %s"
          % (scen["sib_n_jobs"], scen["sib_sched"]["mode"], type(e).__name__, str(e)[:150]),
          exc=type(e).__name__)
    # ---- the call history
    n_twin = 0
    tasks_apply = 0
    earlier = {}
    for i, c in enumerate(scen["calls"]):
        if res.violations:
            break
        if c["m"] == "interlope":
            with peers.paused():
                try:
                    with sched.scenario_schedule(sched.Scheduler("fifo", 0)):
                        if c["what"] == "same_args":
                            # built from the very same constructor argument objects
                            fit(type(est)(**est.get_params(deep=False)), other_train())
                        else:
                            _interlope(c["what"], build, fit, other_train,
                                       y if cat in ("forecaster", "series") else None, c.get("order"))
                    res.probe("interloper_ran")
                    res.fault("other_instance_interleaved")
                except Exception as e:  # noqa
                    digest.update(("interloper:%s" % type(e).__name__).encode())
            continue
        if c.get("pickle_before"):
            try:
                with peers.paused():
                    est = pickle.loads(pickle.dumps(est))
            except Exception as e:  # noqa
                # it could be pickled right after fit: an apply-type call changed the estimator
                v("not_picklable_after_calls", "the fitted estimator could be pickled after fit but not "
                  "after %d apply-type call(s): %s: %s" % (i, type(e).__name__, str(e)[:120]),
                  exc=type(e).__name__)
                break
            res.fault("pickle_roundtrip")
            res.probe("pickle_midway")
        a = call_args(c)
        before = snapshot(a)
        if not hasattr(est, c["m"]):
            continue
        sC = sched.Scheduler(scen["sched"]["mode"], scen["sched"]["seed"] + i + 1, scen["sched"]["p"])
        try:
            with sched.scenario_schedule(sC):
                r = do_call(est, c, a)
        except Exception as e:  # noqa
            digest.update(("raised:%s" % type(e).__name__).encode())
            # must at least fail the same way on the twin
            try:
                with peers.paused():
                    tw = pickle.loads(twin_bytes)
                    s0 = sched.Scheduler("fifo", 0)
                    with sched.scenario_schedule(s0):
                        do_call(tw, c, call_args(c))
                v("call_fails_only_after_history", "%s raised %s on the much-used estimator but "
                  "succeeds on a copy taken right after fit" % (c["m"], type(e).__name__), method=c["m"])
            except Exception:
                pass
            continue
        tasks_apply += sC.n_tasks
        res.ops += 1
        res.probe("apply_input_checked")
        if i and scen["calls"][i - 1] == c:
            res.fault("repeat_call")
        if snapshot(a) != before:
            v("input_mutated", "%s modified the caller's %s" % (c["m"], _what_changed(before, snapshot(a))),
              method=c["m"], container=scen.get("container", "series"))
            break
        # lock-step twin: a copy taken right after fit that receives only this call
        with peers.paused():
            tw = pickle.loads(twin_bytes)
            s0 = sched.Scheduler("fifo", 0)
            try:
                with sched.scenario_schedule(s0):
                    rt = do_call(tw, c, call_args(c))
            except Exception as e:  # noqa
                v("call_fails_only_on_restored_copy", "%s raised %s on a pickled copy" % (
                    c["m"], type(e).__name__), method=c["m"])
                break
        n_twin += 1
        res.probe("twin_compared")
        key = json.dumps({k_: v_ for k_, v_ in c.items() if k_ != "pickle_before"}, sort_keys=True)
        if key in earlier:
            res.probe("repeat_compared_with_first")
            if not deep_equal(r, earlier[key]):
                v("repeat_call_differs", "%s #%d returns %s, the same call returned %s earlier in the "
                  "history (calls in between: %s)" % (c["m"], i, _short(r), _short(earlier[key]),
                                                       sorted(set(x["m"] for x in scen["calls"][:i]))),
                  method=c["m"])
                break
        else:
            earlier[key] = r
        if not deep_equal(r, rt):
            v("result_depends_on_history", "%s #%d returns %s on the much-used estimator and %s on a "
              "restored copy that only received this call" % (c["m"], i, _short(r), _short(rt)),
              method=c["m"])
            break
        if sib_ok:
            sD = sched.Scheduler(scen["sib_sched"]["mode"], scen["sib_sched"]["seed"] + i + 1,
                                 scen["sib_sched"]["p"])
            try:
                with sched.scenario_schedule(sD):
                    rs_ = do_call(sib, c, call_args(c))
            except Exception as e:  # noqa
                v("sibling_call_raised", "%s raised %s on the sibling (n_jobs=%s)" % (
                    c["m"], type(e).__name__, scen["sib_n_jobs"]), method=c["m"])
                break
            tasks_apply += sD.n_tasks
            res.probe("sibling_compared")
            if not deep_equal(r, rs_):
                v("depends_on_n_jobs_or_schedule", "%s #%d: estimator fitted with n_jobs=%s (%s) "
                  "returns %s, equal estimator fitted with n_jobs=%s (%s) returns %s" % (
                      c["m"], i, scen["n_jobs"], scen["sched"]["mode"], _short(r),
                      scen["sib_n_jobs"], scen["sib_sched"]["mode"], _short(rs_)), method=c["m"])
                break
        digest.update(_short(r).encode())
        res.states.add(short_hash([label, c["m"], i]))
    # ---- an update with revised values for time points already seen: neither the batch nor
    # the series handed to fit earlier (which the forecaster may still hold) is modified
    if cat == "forecaster" and not res.violations:
        n_ = scen["n"]
        for lo, hi in ((n_ - 4, n_ - 1), (n_ - 2, n_ + 1)):
            b_ = y.iloc[lo:hi].copy() + 1.5
            bsnap = snapshot(b_)
            try:
                with sched.scenario_schedule(sched.Scheduler("fifo", 0)):
                    est.update(b_, update_params=scen.get("variant_seed", 0) % 2 == 0)
            except Exception as e:  # noqa
                digest.update(("update:%s" % type(e).__name__).encode())
                break
            res.probe("update_input_checked")
            if snapshot(b_) != bsnap:
                v("input_mutated", "update modified the caller's batch", method="update",
                  container="series")
                break
            if snapshot(args) != snap:
                v("fit_mutates_input", "update modified the series the caller had passed to fit "
                  "earlier: %s" % _what_changed(snap, snapshot(args)), method="update",
                  container="series")
                break
    # ---- the much-used object fitted again on other data == a fresh equal estimator fitted
    # on that data (nothing of the first fit may survive)
    if scen.get("refit_check", True) and not res.violations:
        try:
            other = other_train()
            if cat == "series":
                probe_c = {"m": "transform", "a": 7, "len": 9, "stride": 1}
            else:
                probe_c = [c_ for c_ in scen["calls"] if c_["m"] != "interlope"][0]
            fresh = build(scen["n_jobs"])
            sE = sched.Scheduler("fifo", 0)
            with sched.scenario_schedule(sE):
                fit(est, other)
                fit(fresh, tuple(o.copy() if hasattr(o, "copy") else o for o in other))
                if hasattr(est, probe_c["m"]):
                    r1 = do_call(est, probe_c, call_args(probe_c))
                    r2 = do_call(fresh, probe_c, call_args(probe_c))
                    res.probe("refit_compared_with_fresh")
                    if not deep_equal(r1, r2):
                        v("refit_differs_from_fresh", "%s after fitting the used estimator again on "
                          "other data returns %s, a fresh equal estimator fitted on that data returns "
                          "%s" % (probe_c["m"], _short(r1), _short(r2)), method=probe_c["m"])
        except Exception as e:  # noqa
            digest.update(("refit:%s" % type(e).__name__).encode())
    # ---- ... and reconfigured with set_params and fitted again == a fresh estimator built
    # with that configuration
    if cat == "forecaster" and not res.violations:
        spec2 = _variant(scen["spec"], scen.get("variant_seed", 0))
        if spec2 != scen["spec"]:
            try:
                fresh = C.build(_set_n_jobs(spec2, scen["n_jobs"]))
                newp = {k_: v_ for k_, v_ in fresh.get_params(deep=True).items()
                        if not hasattr(v_, "get_params") and not isinstance(v_, (list, tuple))}
                cur = est.get_params(deep=True)
                newp = {k_: v_ for k_, v_ in newp.items() if k_ in cur and not deep_equal(cur[k_], v_)}
                probe_c = [c_ for c_ in scen["calls"] if c_["m"] != "interlope"][0]
                with sched.scenario_schedule(sched.Scheduler("fifo", 0)):
                    est.set_params(**newp)
                    fit(est, train())
                    fit(fresh, train())
                    r1 = do_call(est, probe_c, ())
                    r2 = do_call(fresh, probe_c, ())
                res.probe("reconfigured_refit_compared_with_fresh")
                if not deep_equal(r1, r2):
                    v("refit_differs_from_fresh", "after set_params(%s) and a second fit predict returns "
                      "%s, a fresh estimator built with that configuration returns %s" % (
                          sorted(newp), _short(r1), _short(r2)), method="predict", reconfigured=True)
            except Exception as e:  # noqa
                digest.update(("reconf:%s" % type(e).__name__).encode())
    if cat in ("panel", "classifier", "regressor") and not res.violations:
        table_ = PANEL_TRANSFORMERS if cat == "panel" else CLASSIFIERS if cat == "classifier" else REGRESSORS
        import random as _random
        r_ = _random.Random(scen.get("variant_seed", 0))
        alts = [(k_, v_) for k_, vals in sorted(table_.get(scen["name"], {}).items())
                for v_ in vals if v_ != scen["params"].get(k_)]
        if scen["name"] == "ColumnEnsembleClassifier" and not res.violations:
            # the whole list of (name, estimator, columns) replaced with set_params, then fitted
            # again: the ensemble is the NEW estimators on the NEW columns
            try:
                from sktime.classification.interval_based import TimeSeriesForestClassifier
                new_list = lambda: [  # noqa
                    ("x", TimeSeriesForestClassifier(n_estimators=4, n_jobs=scen["n_jobs"],
                                                     random_state=scen["random_state"] + 5), [1]),
                    ("y", TimeSeriesForestClassifier(n_estimators=2, n_jobs=scen["n_jobs"],
                                                     random_state=scen["random_state"] + 6), [0])]
                fresh = type(est)(estimators=new_list())
                probe_c = [c_ for c_ in scen["calls"] if c_["m"] != "interlope"][0]
                with sched.scenario_schedule(sched.Scheduler("fifo", 0)):
                    est.set_params(estimators=new_list())
                    fit(est, train())
                    fit(fresh, train())
                    r1 = do_call(est, probe_c, call_args(probe_c))
                    r2 = do_call(fresh, probe_c, call_args(probe_c))
                res.probe("reconfigured_refit_compared_with_fresh")
                if not deep_equal(r1, r2):
                    v("refit_differs_from_fresh", "after set_params(estimators=<new list>) and a second "
                      "fit %s returns %s, a fresh ensemble built with that list returns %s" % (
                          probe_c["m"], _short(r1), _short(r2)), method=probe_c["m"], reconfigured=True)
            except Exception as e:  # noqa
                digest.update(("reconf_ce:%s" % type(e).__name__).encode())
        if alts:
            k_, v_ = alts[r_.randrange(len(alts))]
            try:
                params2 = dict(scen["params"], **{k_: v_})
                fresh = build_named(scen["name"], params2, scen["n_jobs"], scen["random_state"])
                probe_c = [c_ for c_ in scen["calls"] if c_["m"] != "interlope"][0]
                with sched.scenario_schedule(sched.Scheduler("fifo", 0)):
                    est.set_params(**{k_: v_})
                    fit(est, train())
                    fit(fresh, train())
                    r1 = do_call(est, probe_c, call_args(probe_c))
                    r2 = do_call(fresh, probe_c, call_args(probe_c))
                res.probe("reconfigured_refit_compared_with_fresh")
                if not deep_equal(r1, r2):
                    v("refit_differs_from_fresh", "after set_params(%s=%r) and a second fit %s returns "
                      "%s, a fresh estimator built with that configuration returns %s" % (
                          k_, v_, probe_c["m"], _short(r1), _short(r2)), method=probe_c["m"],
                      reconfigured=True)
            except Exception as e:  # noqa
                digest.update(("reconf:%s" % type(e).__name__).encode())
    if _rng_digest() != rng_state:
        res.probe("global_rng_touched")
    if tasks_apply:
        res.probe("parallel_apply_tasks", tasks_apply)
    tot = sA.n_tasks + sB.n_tasks + tasks_apply
    for s_ in (sA, sB):
        if s_.n_tasks:
            res.fault("schedule_interleave" if s_.mode == "interleave" else
                      "schedule_ooo" if s_.mode == "ooo" else "schedule_fifo", s_.n_tasks)
            if s_.mode == "interleave":
                res.probe("interleave_schedule")
    res.sched = sA.stats()
    res.sched["tasks"] = tot
    res.sched["trace"] = short_hash([sA.digest(), sB.digest()])
    res.nontrivial = n_twin >= 3 and (tot >= 2 or any(c.get("pickle_before") for c in scen["calls"]))
    res.digest = digest.hexdigest()[:16]
    return res


def _variant(spec, seed):
    """The same composition with some leaf parameters changed."""
    import random
    rng = random.Random(seed)
    s2 = json.loads(json.dumps(spec))

    def walk(x):
        if isinstance(x, dict):
            k = x.get("kind")
            if k == "theta" and rng.random() < 0.8:
                x["deseasonalize"] = not x.get("deseasonalize", True)
            elif k == "naive" and rng.random() < 0.6:
                x["strategy"] = {"last": "mean", "mean": "last", "drift": "last"}.get(x.get("strategy"), "last")
                if x["strategy"] == "mean" and x.get("window_length") is None and x.get("sp", 1) > 1:
                    x["strategy"] = "last"
            elif k == "trend" and rng.random() < 0.6:
                x["degree"] = 1 if x.get("degree", 1) != 1 else 2
            elif k == "deseason" and rng.random() < 0.5:
                x["model"] = "additive" if x.get("model") != "additive" else "multiplicative"
            for v_ in x.values():
                walk(v_)
        elif isinstance(x, list):
            for v_ in x:
                walk(v_)
    walk(s2)
    return s2


def _interlope(what, build, fit, other_train, y, order=None):
    """Another user's estimator in the same process: built, fitted and used."""
    if what == "same_class" or y is None:
        other = build(None)
        fit(other, other_train())
        return
    from sktime.forecasting.compose import TransformedTargetForecaster
    from sktime.forecasting.naive import NaiveForecaster
    from sktime.transformations.series.compose import OptionalPassthrough
    from sktime.transformations.series.detrend import Deseasonalizer
    from sktime.transformations.series.impute import Imputer
    from sktime.transformations.series.outlier_detection import HampelFilter
    z = y.iloc[3:23].copy()
    inners = (Imputer(method="mean"), HampelFilter(window_length=3), Deseasonalizer(sp=2))
    for j in (order or [0, 1, 2]):
        inner = inners[j]
        o = OptionalPassthrough(inner)
        o.fit(z)
        o.transform(z.copy())
        f = TransformedTargetForecaster([("o", OptionalPassthrough(inner)), ("f", NaiveForecaster())])
        f.fit(z)
        f.predict([1, 2])


def _rng_digest():
    st = np.random.get_state()
    return hashlib.sha256(st[1].tobytes() + str(st[2]).encode()).hexdigest()[:12]


def _short(o):
    if isinstance(o, pd.Series):
        return "Series[%d]#%s" % (len(o), C.digest_obj(o) if o.dtype != object else _cells(o.values))
    if isinstance(o, pd.DataFrame):
        return "Frame%s#%s" % (o.shape, snapshot(o)[-1][0] if o.shape[1] else "")
    if isinstance(o, np.ndarray):
        return "array%s#%s" % (o.shape, snapshot(o)[-1][:10])
    return repr(o)[:60]


def _what_changed(a, b):
    if a is None or b is None:
        return "argument"
    try:
        for i, (x, y) in enumerate(zip(a[1] if a[0] == "L" else [a], b[1] if b[0] == "L" else [b])):
            if x != y:
                kind = {"S": "Series", "F": "DataFrame", "A": "array"}.get(x[0], "object")
                if x[0] == "S" and (x[2:5] != y[2:5]):
                    return "%s (argument %d): its index changed (%s -> %s)" % (kind, i, x[2], y[2])
                return "%s (argument %d): its values changed" % (kind, i)
    except Exception:
        pass
    return "argument"


# ------------------------------------------------------------------ shrinking
def shrink_candidates(prop, scen):
    s = json.loads(json.dumps(scen))
    if len(s["calls"]) > 1:
        for cand in ddmin_list(s["calls"]):
            if cand:
                yield dict(s, calls=cand)
    for i, c in enumerate(s["calls"]):
        if c.get("pickle_before"):
            yield dict(s, calls=s["calls"][:i] + [dict(c, pickle_before=False)] + s["calls"][i + 1:])
    if s["sched"]["mode"] != "fifo":
        yield dict(s, sched=dict(s["sched"], mode="fifo"))
    if s["sib_sched"]["mode"] != "fifo":
        yield dict(s, sib_sched=dict(s["sib_sched"], mode="ooo" if s["sib_sched"]["mode"] == "interleave" else "fifo"))
    if s["n_jobs"]:
        yield dict(s, n_jobs=None)
    if s["sib_n_jobs"]:
        yield dict(s, sib_n_jobs=None)
    if s["data"]["origin"]:
        yield dict(s, data=dict(s["data"], origin=0))
    if s["data"]["index"] != "range":
        yield dict(s, data=dict(s["data"], index="range"))
    if s["cat"] == "forecaster":
        from engines.forecaster_sm import _simplify_spec
        for sp2 in _simplify_spec(s["spec"]):
            if C.needs_fh_at_fit(sp2) and not s.get("fh_fit"):
                continue
            yield dict(s, spec=sp2)
    if s.get("container") in ("nested_array", "numpy3d", "frame"):
        yield dict(s, container="nested_series" if s["cat"] != "series" else "series")
