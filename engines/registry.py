# -*- coding: utf-8 -*-
"""Enumeration of estimator classes defined in the package (the repo's own
all_estimators() imports sktime/tests/_config.py, which needs prophet)."""
import inspect
import sys


def estimator_kind(cls):
    from sktime.classification.base import BaseClassifier
    from sktime.forecasting.base import BaseForecaster
    from sktime.regression.base import BaseRegressor
    from sktime.transformations.base import (
        BaseTransformer, _PanelToPanelTransformer, _PanelToTabularTransformer,
        _SeriesToPrimitivesTransformer, _SeriesToSeriesTransformer)
    if issubclass(cls, BaseForecaster):
        return "forecaster"
    if issubclass(cls, BaseClassifier):
        return "classifier"
    if issubclass(cls, BaseRegressor):
        return "regressor"
    if issubclass(cls, _SeriesToSeriesTransformer):
        return "series-transformer"
    if issubclass(cls, _SeriesToPrimitivesTransformer):
        return "series-to-primitives"
    if issubclass(cls, (_PanelToPanelTransformer,)):
        return "panel-transformer"
    if issubclass(cls, (_PanelToTabularTransformer,)):
        return "panel-to-tabular"
    if issubclass(cls, BaseTransformer):
        return "transformer"
    return None


def all_estimator_classes():
    """[(qualified name, class, kind)] for every public concrete estimator class
    defined in an imported sktime module (tests/contrib/benchmarking excluded)."""
    from sktime.base import BaseEstimator
    out = {}
    for name, mod in sorted(sys.modules.items()):
        if not name.startswith("sktime.") or mod is None:
            continue
        parts = name.split(".")
        if any(p in ("tests", "contrib", "benchmarking", "_testing") for p in parts):
            continue
        for cname, cls in sorted(vars(mod).items()):
            if not inspect.isclass(cls) or cls.__module__ != name:
                continue
            if not issubclass(cls, BaseEstimator):
                continue
            if cname.startswith("_") or cname.startswith("Base"):
                continue
            if inspect.isabstract(cls):
                continue
            kind = estimator_kind(cls)
            if kind is None:
                continue
            out["%s.%s" % (name, cname)] = (cls, kind)
    return [(k, v[0], v[1]) for k, v in sorted(out.items())]
