# -*- coding: utf-8 -*-
"""Shared workload vocabulary: series generation, forecaster / transformer
specs (JSON) and their builders, comparison helpers."""
import hashlib
import pickle

import numpy as np
import pandas as pd

RTOL = 1e-9
ATOL = 1e-9


# ------------------------------------------------------------------ data
def make_series(seed, n, origin=0, index_kind="range", positive=True, sp=4,
                trend=0.3, noise=0.5, level=20.0):
    rs = np.random.RandomState(seed)
    t = np.arange(n)
    season = 2.0 * np.sin(2 * np.pi * t / max(sp, 2)) + (t % max(sp, 1) == 0) * 1.5
    vals = level + trend * t + season + noise * rs.normal(size=n)
    if positive:
        vals = np.abs(vals) + 1.0
    vals = np.round(vals, 6)
    return pd.Series(vals, index=make_index(origin, n, index_kind))


def make_index(origin, n, kind):
    if kind == "range":
        return pd.RangeIndex(origin, origin + n)
    if kind == "int":
        return pd.Index(np.arange(origin, origin + n, dtype=np.int64))
    if kind == "step2":      # integer time stamps that do not advance by one per observation
        return pd.RangeIndex(origin, origin + 2 * n, 2)
    if kind == "irregular":
        gaps = np.random.RandomState(abs(origin) + n).choice([1, 2, 3], size=n)
        return pd.Index(origin + np.cumsum(gaps), dtype=np.int64)
    if kind == "period":
        return pd.period_range(pd.Period("2000-01", freq="M") + origin, periods=n, freq="M")
    raise ValueError(kind)


def series_from_dict(seen, like_index):
    """Series of everything seen so far, with the index type of `like_index`."""
    keys = sorted(seen)
    vals = [seen[k] for k in keys]
    if isinstance(like_index, pd.PeriodIndex):
        idx = pd.PeriodIndex(keys, freq=like_index.freq)
    elif isinstance(like_index, pd.RangeIndex) and keys == list(range(keys[0], keys[0] + len(keys))):
        idx = pd.RangeIndex(keys[0], keys[0] + len(keys))
    else:
        idx = pd.Index(np.asarray(keys, dtype=np.int64))
    return pd.Series(vals, index=idx, dtype=float)


def shift_series(y, c):
    """Same values, integer time index shifted by c (index type preserved)."""
    idx = y.index
    if isinstance(idx, pd.RangeIndex):
        new = pd.RangeIndex(idx.start + c, idx.stop + c, idx.step)
    elif isinstance(idx, pd.PeriodIndex):
        new = idx + c
    else:
        new = pd.Index(idx.to_numpy() + c)
    out = y.copy()
    out.index = new
    return out


# ------------------------------------------------------------------ comparisons
def same_values(a, b, exact=False):
    a = np.asarray(a, dtype=float)
    b = np.asarray(b, dtype=float)
    if a.shape != b.shape:
        return False
    if exact:
        return bool(np.array_equal(a, b, equal_nan=True))
    return bool(np.allclose(a, b, rtol=RTOL, atol=ATOL, equal_nan=True))


def same_index(a, b):
    try:
        return len(a) == len(b) and bool((np.asarray(a) == np.asarray(b)).all())
    except Exception:
        return False


def same_series(a, b, exact=False):
    return isinstance(a, pd.Series) and isinstance(b, pd.Series) and \
        same_index(a.index, b.index) and same_values(a.values, b.values, exact)


def digest_obj(o):
    m = hashlib.sha256()
    if isinstance(o, pd.Series):
        m.update(repr(list(map(str, o.index))).encode())
        m.update(np.round(np.asarray(o.values, dtype=float), 8).tobytes())
    elif isinstance(o, pd.DataFrame):
        m.update(repr(list(map(str, o.index))).encode())
        m.update(repr(list(map(str, o.columns))).encode())
        m.update(np.round(np.asarray(o.values, dtype=float), 8).tobytes())
    elif isinstance(o, np.ndarray):
        m.update(np.round(o.astype(float), 8).tobytes())
    else:
        m.update(repr(o).encode())
    return m.hexdigest()[:12]


def fmt(o, n=4):
    if isinstance(o, pd.Series):
        return "[%s @ %s]" % (", ".join("%.6g" % v for v in o.values[:n]),
                              list(o.index[:n]))
    return repr(o)[:120]


# ------------------------------------------------------------------ forecaster specs
def build(spec):
    """Build a fresh (unfitted) estimator from a JSON spec."""
    k = spec["kind"]
    if k == "naive":
        from sktime.forecasting.naive import NaiveForecaster
        return NaiveForecaster(strategy=spec["strategy"], sp=spec.get("sp", 1),
                               window_length=spec.get("window_length"))
    if k == "trend":
        from sktime.forecasting.trend import PolynomialTrendForecaster
        return PolynomialTrendForecaster(degree=spec.get("degree", 1),
                                         with_intercept=spec.get("with_intercept", True))
    if k == "expsm":
        from sktime.forecasting.exp_smoothing import ExponentialSmoothing
        return ExponentialSmoothing(trend=spec.get("trend"), seasonal=spec.get("seasonal"),
                                    sp=spec.get("sp"), damped_trend=spec.get("damped", False))
    if k == "ets":
        from sktime.forecasting.ets import AutoETS
        return AutoETS(error=spec.get("error", "add"), trend=spec.get("trend"),
                       seasonal=spec.get("seasonal"), sp=spec.get("sp", 1), auto=False,
                       n_jobs=spec.get("n_jobs"))
    if k == "theta":
        from sktime.forecasting.theta import ThetaForecaster
        return ThetaForecaster(sp=spec.get("sp", 1), deseasonalize=spec.get("deseasonalize", True))
    if k == "reduce":
        from sktime.forecasting.compose import make_reduction
        return make_reduction(build_regressor(spec.get("regressor", "stub")),
                              strategy=spec["strategy"], window_length=spec["window_length"],
                              scitype="tabular-regressor" if spec.get("regressor") == "inplace"
                              else "infer")
    if k == "ensemble":
        from sktime.forecasting.compose import EnsembleForecaster
        return EnsembleForecaster(
            [("m%d" % i, build(m)) for i, m in enumerate(spec["members"])],
            n_jobs=spec.get("n_jobs"), aggfunc=spec.get("aggfunc", "mean"))
    if k == "online":
        from sktime.forecasting.online_learning import (
            NNLSEnsemble, NormalHedgeEnsemble, OnlineEnsembleForecaster)
        algo = None
        if spec.get("algo") == "nnls":
            algo = NNLSEnsemble(n_estimators=len(spec["members"]))
        elif spec.get("algo") == "hedge":
            from sklearn.metrics import mean_squared_error
            algo = NormalHedgeEnsemble(n_estimators=len(spec["members"]), loss_func=mean_squared_error)
        return OnlineEnsembleForecaster([("m%d" % i, build(m)) for i, m in enumerate(spec["members"])],
                                        ensemble_algorithm=algo)
    if k == "ttf":
        from sktime.forecasting.compose import TransformedTargetForecaster
        steps = [("t%d" % i, build_transformer(t)) for i, t in enumerate(spec["transformers"])]
        steps.append(("f", build(spec["forecaster"])))
        return TransformedTargetForecaster(steps)
    if k == "stack":
        from sktime.forecasting.compose import StackingForecaster
        return StackingForecaster(
            [("m%d" % i, build(m)) for i, m in enumerate(spec["members"])],
            final_regressor=build_regressor(spec.get("final", "stub")),
            n_jobs=spec.get("n_jobs"))
    if k == "mux":
        from sktime.forecasting.compose import MultiplexForecaster
        return MultiplexForecaster(
            [("m%d" % i, build(m)) for i, m in enumerate(spec["members"])],
            selected_forecaster="m%d" % spec["selected"])
    if k == "gscv":
        from sktime.forecasting.model_selection import ForecastingGridSearchCV
        return ForecastingGridSearchCV(build(spec["forecaster"]), build_cv(spec["cv"]),
                                       spec["grid"], n_jobs=spec.get("n_jobs"),
                                       refit=spec.get("refit", True))
    raise ValueError("unknown forecaster kind %r" % k)


def build_regressor(name):
    from simkit.peers import StubRegressor
    if name == "stub":
        return StubRegressor()
    if name == "linear":
        from sklearn.linear_model import LinearRegression
        return LinearRegression()
    if name == "inplace":
        # a legitimate regressor that works in place on what it is given at predict time
        from sklearn.linear_model import LinearRegression
        from sklearn.pipeline import make_pipeline
        from sklearn.preprocessing import StandardScaler
        return make_pipeline(StandardScaler(copy=False), LinearRegression())
    raise ValueError(name)


def build_transformer(spec):
    k = spec["kind"]
    if k == "ttf_t":
        # a pipeline used as a transformer step (its own final forecaster is never asked)
        return build({"kind": "ttf", "transformers": spec["transformers"],
                      "forecaster": {"kind": "naive", "strategy": "last", "sp": 1,
                                     "window_length": None}})
    if k == "detrend":
        from sktime.transformations.series.detrend import Detrender
        f = build(spec["forecaster"]) if spec.get("forecaster") else None
        return Detrender(forecaster=f)
    if k == "deseason":
        from sktime.transformations.series.detrend import Deseasonalizer
        return Deseasonalizer(sp=spec.get("sp", 1), model=spec.get("model", "additive"))
    if k == "cdeseason":
        from sktime.transformations.series.detrend import ConditionalDeseasonalizer
        return ConditionalDeseasonalizer(sp=spec.get("sp", 1), model=spec.get("model", "additive"))
    if k == "boxcox":
        from sktime.transformations.series.boxcox import BoxCoxTransformer
        return BoxCoxTransformer(method=spec.get("method", "mle"),
                                 bounds=tuple(spec["bounds"]) if spec.get("bounds") else None)
    if k == "log":
        from sktime.transformations.series.boxcox import LogTransformer
        return LogTransformer()
    if k == "adapt":
        from sktime.transformations.series.adapt import TabularToSeriesAdaptor
        from sklearn.preprocessing import MinMaxScaler, StandardScaler
        if spec.get("inner") == "standard_inplace":
            # (a scaler that, legitimately, works in place on the array it is handed)
            return TabularToSeriesAdaptor(StandardScaler(copy=False))
        inner = {"minmax": MinMaxScaler, "standard": StandardScaler}[spec.get("inner", "minmax")]()
        return TabularToSeriesAdaptor(inner)
    if k == "optional":
        from sktime.transformations.series.compose import OptionalPassthrough
        flag = spec.get("passthrough", False)
        # the flag as it comes out of a numpy array / a 0-1 column of a parameter table
        if spec.get("flag_as") == "numpy":
            flag = np.bool_(flag)
        elif spec.get("flag_as") == "int":
            flag = int(flag)
        return OptionalPassthrough(build_transformer(spec["transformer"]), passthrough=flag)
    if k == "imputer":
        from sktime.transformations.series.impute import Imputer
        return Imputer(method=spec.get("method", "drift"))
    if k == "hampel":
        from sktime.transformations.series.outlier_detection import HampelFilter
        return HampelFilter(window_length=spec.get("window_length", 5),
                            n_sigma=spec.get("n_sigma", 3))
    raise ValueError("unknown transformer kind %r" % k)


def build_cv(spec):
    from sktime.forecasting.model_selection import (
        ExpandingWindowSplitter, SingleWindowSplitter, SlidingWindowSplitter)
    t = spec["type"]
    fh = spec.get("fh", [1])
    # the same steps ahead, handed over as another of the accepted containers
    if spec.get("fh_as") == "array":
        fh = np.array(fh)
    elif spec.get("fh_as") == "object":
        from sktime.forecasting.base import ForecastingHorizon
        fh = ForecastingHorizon(fh, is_relative=True)
    if t == "sliding":
        return SlidingWindowSplitter(fh=fh, window_length=spec["window"],
                                     step_length=spec.get("step", 1),
                                     initial_window=spec.get("initial"),
                                     start_with_window=spec.get("start_with_window", True))
    if t == "expanding":
        return ExpandingWindowSplitter(fh=fh, initial_window=spec["window"],
                                       step_length=spec.get("step", 1),
                                       start_with_window=spec.get("start_with_window", True))
    if t == "single":
        return SingleWindowSplitter(fh=fh, window_length=spec.get("window"))
    if t == "cutoff":
        from sktime.forecasting.model_selection import CutoffSplitter
        return CutoffSplitter(np.array(spec["cutoffs"]), fh=fh, window_length=spec["window"])
    raise ValueError(t)


# ---- traits used by generators and oracles (about the *kinds*, from the docs)
FH_AT_FIT = {"direct", "multioutput", "dirrec"}


def needs_fh_at_fit(spec):
    k = spec["kind"]
    if k == "reduce":
        return spec["strategy"] in FH_AT_FIT
    if k == "stack":
        return True
    if k in ("ensemble", "mux", "online"):
        ms = spec["members"] if k != "mux" else [spec["members"][spec["selected"]]]
        return any(needs_fh_at_fit(m) for m in ms)
    if k == "ttf":
        return needs_fh_at_fit(spec["forecaster"])
    if k == "gscv":
        return needs_fh_at_fit(spec["forecaster"])
    return False


def refits_on_update(spec):
    """Does update(update_params=True) refit on all data seen (base default)?"""
    k = spec["kind"]
    if k in ("naive", "trend", "expsm", "ets", "reduce"):
        return True
    if k == "ensemble":
        return all(refits_on_update(m) for m in spec["members"])
    if k == "mux":
        return refits_on_update(spec["members"][spec["selected"]])
    return False  # theta, ttf, stack, gscv: custom update


def min_train_len(spec, max_fh):
    k = spec["kind"]
    if k == "naive":
        w = spec.get("window_length") or 1
        return max(w, spec.get("sp", 1), 2) + 1
    if k == "trend":
        return spec.get("degree", 1) + 3
    if k in ("expsm", "ets"):
        sp = spec.get("sp") or 1
        return 12 + 2 * sp if spec.get("seasonal") else 12
    if k == "theta":
        return max(12, 2 * spec.get("sp", 1) + 4)
    if k == "reduce":
        return spec["window_length"] + max_fh + 3
    if k in ("ensemble", "mux", "stack", "online"):
        base = max(min_train_len(m, max_fh) for m in spec["members"])
        return base + (max_fh + 1 if k == "stack" else 0)
    if k == "ttf":
        need = min_train_len(spec["forecaster"], max_fh)
        flat = []
        for t in spec["transformers"]:
            flat.extend(t["transformers"] if t["kind"] == "ttf_t" else [t])
        for t in flat:
            while t["kind"] == "optional":
                t = t["transformer"]
            if t["kind"] in ("deseason", "cdeseason"):
                need = max(need, 2 * t.get("sp", 1) + 2)
            if t["kind"] == "boxcox":
                need = max(need, 12)  # scipy's lambda search is ill-posed on a handful of points
        return need
    if k == "gscv":
        c = spec["cv"]
        return max(min_train_len(spec["forecaster"], max_fh) + 2,
                   c["window"] + max(c.get("fh", [1])) + 2 * c.get("step", 1) + 1) + 4
    return 10


def class_names(spec, out=None):
    out = set() if out is None else out
    names = {"naive": "forecasting.naive.NaiveForecaster",
             "trend": "forecasting.trend.PolynomialTrendForecaster",
             "expsm": "forecasting.exp_smoothing.ExponentialSmoothing",
             "ets": "forecasting.ets.AutoETS", "theta": "forecasting.theta.ThetaForecaster",
             "ensemble": "forecasting.compose.EnsembleForecaster",
             "online": "forecasting.online_learning.OnlineEnsembleForecaster",
             "ttf": "forecasting.compose.TransformedTargetForecaster",
             "stack": "forecasting.compose.StackingForecaster",
             "mux": "forecasting.compose.MultiplexForecaster",
             "gscv": "forecasting.model_selection.ForecastingGridSearchCV",
             "detrend": "transformations.series.detrend.Detrender",
             "deseason": "transformations.series.detrend.Deseasonalizer",
             "cdeseason": "transformations.series.detrend.ConditionalDeseasonalizer",
             "boxcox": "transformations.series.boxcox.BoxCoxTransformer",
             "log": "transformations.series.boxcox.LogTransformer",
             "adapt": "transformations.series.adapt.TabularToSeriesAdaptor",
             "optional": "transformations.series.compose.OptionalPassthrough",
             "imputer": "transformations.series.impute.Imputer",
             "hampel": "transformations.series.outlier_detection.HampelFilter"}
    k = spec["kind"]
    if k == "reduce":
        out.add("forecasting.compose._reduce(%s)" % spec["strategy"])
    else:
        out.add(names.get(k, k))
    for key in ("members", "transformers"):
        for m in spec.get(key, []):
            class_names(m, out)
    for key in ("forecaster", "transformer"):
        if isinstance(spec.get(key), dict):
            class_names(spec[key], out)
    return out


def uses_stub(spec):
    k = spec["kind"]
    if k == "reduce":
        return spec.get("regressor", "stub") == "stub"
    if k == "stack":
        return True
    return any(uses_stub(m) for key in ("members", "transformers") for m in spec.get(key, [])) or \
        any(uses_stub(spec[key]) for key in ("forecaster", "transformer")
            if isinstance(spec.get(key), dict))


# ------------------------------------------------------------------ spec generation
def gen_leaf(rng, allow_slow=True, allow_reduce=True):
    r = rng.random()
    if r < 0.34:
        strat = rng.choice(["last", "mean", "drift"])
        sp = rng.choice([1, 1, 2, 3, 4]) if strat != "drift" else 1
        wl = rng.choice([None, None, 3, 4, 5, 6, 8])
        if strat == "mean" and wl is not None and sp != 1 and wl < sp:
            wl = sp * 2
        if strat == "drift" and wl == 1:
            wl = 3
        if strat == "last":
            wl = None
        return {"kind": "naive", "strategy": strat, "sp": sp, "window_length": wl}
    if r < 0.52:
        return {"kind": "trend", "degree": rng.choice([1, 1, 2, 3]),
                "with_intercept": rng.random() < 0.85}
    if r < 0.74 and allow_reduce:
        strat = rng.choice(["recursive", "recursive", "direct", "multioutput", "dirrec"])
        reg = "stub"
        if strat == "multioutput" and rng.random() < 0.5:
            reg = rng.choice(["linear", "inplace"])
        return {"kind": "reduce", "strategy": strat, "window_length": rng.choice([2, 3, 4, 5]),
                "regressor": reg}
    if not allow_slow:
        return {"kind": "naive", "strategy": "last", "sp": 1, "window_length": None}
    if r < 0.84:
        seasonal = rng.choice([None, None, "add"])
        return {"kind": "expsm", "trend": rng.choice([None, "add"]), "seasonal": seasonal,
                "sp": rng.choice([2, 3, 4]) if seasonal else None}
    if r < 0.92:
        seasonal = rng.choice([None, None, "add"])
        return {"kind": "ets", "error": "add", "trend": rng.choice([None, "add"]),
                "seasonal": seasonal, "sp": rng.choice([2, 3, 4]) if seasonal else 1}
    return {"kind": "theta", "sp": rng.choice([1, 1, 2, 4]), "deseasonalize": rng.random() < 0.7}


def gen_transformer(rng, invertible=True):
    r = rng.random()
    if r < 0.22:
        return {"kind": "detrend", "forecaster": rng.choice([
            None, {"kind": "trend", "degree": 2, "with_intercept": True},
            {"kind": "trend", "degree": 1, "with_intercept": True}])}
    if r < 0.44:
        return {"kind": "deseason", "sp": rng.choice([1, 2, 3, 4, 5, 7]),
                "model": rng.choice(["additive", "multiplicative"])}
    if r < 0.52:
        return {"kind": "cdeseason", "sp": rng.choice([2, 3, 4]),
                "model": rng.choice(["additive", "multiplicative"])}
    if r < 0.66:
        return {"kind": "boxcox", "method": "mle",
                "bounds": rng.choice([None, None, [-1, 2], [0, 1], [0, 2]])}
    if r < 0.78:
        return {"kind": "log"}
    if r < 0.9:
        return {"kind": "adapt", "inner": rng.choice(["minmax", "standard", "standard_inplace"])}
    inner = gen_transformer(rng)
    while inner["kind"] == "optional":
        inner = gen_transformer(rng)
    return {"kind": "optional", "transformer": inner, "passthrough": rng.random() < 0.4,
            "flag_as": rng.choice([None, None, "numpy", "int"])}


def gen_forecaster(rng, depth=2, allow_slow=True, kinds=("ensemble", "ttf", "stack", "mux")):
    if depth <= 0 or rng.random() < 0.45:
        return gen_leaf(rng, allow_slow)
    k = rng.choice(list(kinds))
    if k == "ensemble":
        return {"kind": "ensemble",
                "members": [gen_forecaster(rng, depth - 1, allow_slow, kinds)
                            for _ in range(rng.randint(2, 3))],
                "aggfunc": rng.choice(["mean", "mean", "median", "min", "max"]),
                "n_jobs": rng.choice([None, None, 1, 2, 4])}
    if k == "ttf":
        ts, positive = [], True
        for _ in range(rng.randint(1, 2)):
            t = gen_transformer(rng)
            while not positive and needs_positive(t):
                t = gen_transformer(rng)
            ts.append(t)
            positive = positive and keeps_positive(t)
        f = gen_forecaster(rng, depth - 1, allow_slow, kinds)
        while not positive and _contains_kind(f, ("theta", "ttf")):
            f = gen_forecaster(rng, depth - 1, allow_slow, kinds)
        return {"kind": "ttf", "transformers": ts, "forecaster": f}
    if k == "stack":
        return {"kind": "stack",
                "members": [gen_leaf(rng, allow_slow) for _ in range(rng.randint(2, 3))],
                "final": "stub", "n_jobs": rng.choice([None, None, 2])}
    members = [gen_forecaster(rng, depth - 1, allow_slow, kinds) for _ in range(rng.randint(2, 3))]
    return {"kind": "mux", "members": members, "selected": rng.randrange(len(members))}


def needs_positive(t):
    k = t["kind"]
    if k == "ttf_t":
        return any(needs_positive(x) for x in t["transformers"])
    if k in ("boxcox", "log"):
        return True
    if k in ("deseason", "cdeseason"):
        return t.get("model") == "multiplicative"
    if k == "optional":
        return needs_positive(t["transformer"])
    return False


def keeps_positive(t):
    k = t["kind"]
    if k == "ttf_t":
        return all(keeps_positive(x) for x in t["transformers"])
    if k in ("deseason", "cdeseason"):
        return t.get("model") == "multiplicative"
    if k == "optional":
        return keeps_positive(t["transformer"])
    return k in ("imputer", "hampel")


def _contains_kind(spec, kinds):
    if spec["kind"] in kinds:
        return True
    for key in ("members", "transformers"):
        if any(_contains_kind(m, kinds) for m in spec.get(key, [])):
            return True
    for key in ("forecaster", "transformer"):
        if isinstance(spec.get(key), dict) and _contains_kind(spec[key], kinds):
            return True
    return False


def reset_caches():
    """Process-global caches of the repo are emptied before every scenario, so that the number
    of pre-emption points (and with it the schedule) does not depend on what ran earlier in
    the process.  (The caches are not disabled: histories deliberately reuse one horizon
    object across many cutoffs.)  Tolerates a tree in which they were refactored away."""
    try:
        from sktime.forecasting.base import ForecastingHorizon
    except Exception:
        return
    for name in ("to_relative", "to_absolute", "to_indexer", "to_absolute_int"):
        fn = getattr(ForecastingHorizon, name, None)
        clear = getattr(fn, "cache_clear", None)
        if clear is not None:
            clear()


def pickle_roundtrip(o):
    return pickle.loads(pickle.dumps(o))
