# -*- coding: utf-8 -*-
"""C20 - malformed data, horizons and settings are rejected, never silently
mis-handled.  Fault = one malformed argument injected into an otherwise valid,
randomised history: each run executes a control (valid arguments, must be
accepted) and the same call with exactly one aspect malformed (must raise
ValueError / TypeError / NotImplementedError and leave no fitted state)."""
import hashlib
import json
import random

import numpy as np
import pandas as pd

from engines import common as C
from simkit import peers, sched
from simkit.core import RunResult, short_hash

LEVEL = {"C20": "exploration"}
TIERS = {"C20": (12000, 150, 400000, 1200)}
PROBES = {"C20": ["control_accepted", "rejected_as_required", "fit_rejected_leaves_unfitted",
                  "state_unchanged_after_rejection",
                  "valid_call_after_rejection", "malformed_y", "malformed_X", "malformed_fh",
                  "missing_or_different_fh", "malformed_window_step_sp", "window_does_not_fit",
                  "unknown_strategy", "ill_formed_composite", "entry_forecaster", "entry_composite",
                  "entry_splitter", "entry_evaluate", "entry_tuner", "entry_tts", "entry_fh"]}
FAULT_KINDS = {"C20": ["malformed_input"]}
RULE = {"C20": (
    "seeded choice of a cell (entry point x malformation class from the reviewed applicability "
    "matrix) with randomised otherwise-valid context (series, index origin, forecaster, horizon, "
    "window); per run: control call, faulty call, then a valid call on the same object. "
    "Non-trivial = the control was accepted and the faulty call executed; distinct = (cell, "
    "variant drawn inside the cell such as forecaster kind / splitter type / update_params, "
    "exception type raised), i.e. independent of the context seed.")}
ASSUMPTIONS = {"C20": [
    "the applicability matrix (which malformation is meaningful at which entry point) is data in "
    "engines/malformed.py, reviewed against the statement so that no rejection is demanded that "
    "the property does not state",
    "fractional horizons are injected as lists, arrays and float scalars; float/object pd.Index "
    "objects are not injected (compat gap 1)"]}

ACCEPTED_ERRORS = (ValueError, TypeError, NotImplementedError)


# ------------------------------------------------------------------ context
class Ctx:
    def __init__(self, scen):
        self.rng = random.Random(scen["ctx_seed"])
        r = self.rng
        self.n = r.randint(24, 40)
        self.origin = r.choice([0, 0, 3, 50, -10])
        self.index = r.choice(["range", "range", "int"])
        self.y = C.make_series(r.randint(0, 10 ** 6), self.n + 12, self.origin, self.index, sp=4)
        self.y_train = self.y.iloc[:self.n]
        self.y_new = self.y.iloc[self.n:self.n + 6]
        self.steps = sorted(r.sample(range(1, 6), r.randint(1, 3)))
        rs = np.random.RandomState(r.randint(0, 10 ** 6))
        self.X = pd.DataFrame({"x": np.round(rs.normal(size=len(self.y)), 3)}, index=self.y.index)
        self.X_train = self.X.iloc[:self.n]
        self.X_new = self.X.iloc[self.n:self.n + 6]

    def forecaster(self, kinds=None):
        """A valid forecaster spec (JSON) of a random kind."""
        r = self.rng
        k = r.choice(kinds or ["naive", "naive_mean", "trend", "reduce_rec", "reduce_dir",
                               "reduce_multi", "reduce_dirrec", "ensemble", "ttf", "mux", "stack",
                               "expsm"])
        naive = {"kind": "naive", "strategy": "last", "sp": 1, "window_length": None}
        if k == "naive":
            return dict(naive, strategy=r.choice(["last", "drift"]))
        if k == "naive_mean":
            return dict(naive, strategy="mean", window_length=r.choice([None, 4, 6]))
        if k == "trend":
            return {"kind": "trend", "degree": r.choice([1, 2]), "with_intercept": True}
        if k.startswith("reduce"):
            strat = {"reduce_rec": "recursive", "reduce_dir": "direct", "reduce_multi": "multioutput",
                     "reduce_dirrec": "dirrec"}[k]
            return {"kind": "reduce", "strategy": strat, "window_length": r.choice([3, 4]),
                    "regressor": "stub"}
        if k == "ensemble":
            return {"kind": "ensemble", "members": [naive, {"kind": "trend", "degree": 1}],
                    "aggfunc": "mean", "n_jobs": None}
        if k == "ensemble_x":  # members that accept exogenous data
            return {"kind": "ensemble", "members": [naive, dict(naive, strategy="mean")],
                    "aggfunc": "mean", "n_jobs": None}
        if k == "ttf":
            return {"kind": "ttf", "transformers": [{"kind": "detrend", "forecaster": None}],
                    "forecaster": naive}
        if k == "ttf_req":  # a pipeline whose last step needs the horizon in fit
            return {"kind": "ttf", "transformers": [{"kind": "detrend", "forecaster": None}],
                    "forecaster": {"kind": "reduce", "strategy": r.choice(["direct", "multioutput"]),
                                   "window_length": 3, "regressor": "stub"}}
        if k == "mux":
            return {"kind": "mux", "members": [naive, {"kind": "trend", "degree": 1}], "selected": 0}
        if k == "stack":
            return {"kind": "stack", "members": [naive, {"kind": "trend", "degree": 1}], "final": "stub"}
        return {"kind": "expsm", "trend": None, "seasonal": None, "sp": None}


def _shuffled(y, rng):
    idx = list(range(len(y)))
    a, b = rng.sample(idx[1:], 2) if len(idx) > 2 else (0, 1)
    idx[a], idx[b] = idx[b], idx[a]
    return y.iloc[idx]


Y_MALFORMS = ["y_unsorted", "y_decreasing_range", "y_empty", "y_frame", "y_frame_one_column",
              "y_ndarray", "y_list"]
X_MALFORMS = ["X_shifted", "X_shorter", "X_longer", "X_unsorted", "X_ndarray"]
FH_MALFORMS = ["fh_dup", "fh_dup_array", "fh_dup_index", "fh_empty", "fh_empty_index",
               "fh_empty_object", "fh_periods_as_steps", "fh_dates_as_steps",
               "fh_frac_list", "fh_frac_array", "fh_frac_scalar", "fh_str", "fh_dict", "fh_nested"]
INT_MALFORMS = ["zero", "negative", "fractional", "string", "bool", "list", "np_fractional", "np_negative"]


def malform_y(kind, y, rng):
    if kind == "y_unsorted":
        return _shuffled(y, rng)
    if kind == "y_decreasing_range":
        # still a RangeIndex, but running backwards in time
        return pd.Series(y.values, index=pd.RangeIndex(int(y.index[-1]), int(y.index[0]) - 1, -1))
    if kind == "y_empty":
        return y.iloc[:0]
    if kind == "y_frame":
        return pd.DataFrame({"a": y, "b": y * 2})
    if kind == "y_frame_one_column":
        return pd.DataFrame({"a": y})   # still a DataFrame: 'multivariate or array-typed target'
    if kind == "y_ndarray":
        return y.to_numpy()
    if kind == "y_list":
        return list(y.values)
    raise KeyError(kind)


def malform_X(kind, X, rng):
    if kind == "X_shifted":
        X2 = X.copy()
        X2.index = X.index + 1
        return X2
    if kind == "X_shorter":
        return X.iloc[:-1]
    if kind == "X_longer":
        # every time point of y is there, plus extra rows before the start / after the end
        extra = X.iloc[:2].copy()
        if rng.random() < 0.5:
            extra.index = X.index[:2] - 2
            return pd.concat([extra, X])
        extra.index = X.index[-2:] + 2
        return pd.concat([X, extra])
    if kind == "X_unsorted":
        return _shuffled(X, rng)
    if kind == "X_ndarray":
        return X.to_numpy()
    raise KeyError(kind)


def malform_fh(kind, steps):
    # wrongly typed: time stamps / periods where steps ahead are expected
    if kind == "fh_periods_as_steps":
        return pd.period_range("2000-01", periods=len(steps), freq="M")
    if kind == "fh_dates_as_steps":
        return pd.date_range("2000-01-01", periods=len(steps), freq="D")
    if kind == "fh_dup":
        return list(steps) + [steps[-1]]
    if kind == "fh_dup_array":
        return np.array(list(steps) + [steps[0]])
    if kind == "fh_dup_index":
        return pd.Index([steps[0]] + list(steps), dtype=np.int64)
    if kind == "fh_empty_index":
        return pd.Index([], dtype=np.int64)
    if kind == "fh_empty_object":
        from sktime.forecasting.base import ForecastingHorizon
        return ForecastingHorizon(pd.Index([], dtype=np.int64))
    if kind == "fh_empty":
        return []
    # (every step fractional, or - when the steps allow - whole and fractional steps mixed)
    mixed = len(steps) >= 2 and sum(steps) % 2 == 0
    if kind == "fh_frac_list":
        return [s + 0.5 for s in steps] if not mixed else [steps[0]] + [s + 0.5 for s in steps[1:]]
    if kind == "fh_frac_array":
        return np.array([s + 0.5 for s in steps] if not mixed
                        else [float(steps[0])] + [s + 0.5 for s in steps[1:]])
    if kind == "fh_frac_scalar":
        return steps[0] + 0.5
    if kind == "fh_str":
        return "1"
    if kind == "fh_dict":
        return {"steps": list(steps)}
    if kind == "fh_nested":
        return [[s] for s in steps]
    raise KeyError(kind)


def malform_int(kind, valid):
    return {"zero": 0, "negative": -valid, "fractional": valid + 0.5, "string": str(valid),
            "bool": True, "list": [valid], "np_fractional": np.float64(valid + 0.5),
            "np_negative": np.int64(-valid)}[kind]


# ------------------------------------------------------------------ cells
# Every cell builder returns dict(control=callable, faulty=callable, fresh=optional callable
# returning the object whose is_fitted must stay False, after=optional callable: a valid call
# that must still work after the rejection).  `groups` name the probes it counts for.
CELLS = {}


def cell(name, *groups):
    def deco(fn):
        CELLS[name] = (fn, groups)
        return fn
    return deco


def _fit_kwargs(spec, ctx, fh="steps"):
    kw = {}
    if C.needs_fh_at_fit(spec) or ctx.rng.random() < 0.3:
        kw["fh"] = list(ctx.steps)
    return kw


def _register_y_cells():
    for m in Y_MALFORMS:
        def fit_cell(ctx, m=m):
            spec = ctx.forecaster()
            kw = _fit_kwargs(spec, ctx)
            bad = malform_y(m, ctx.y_train, ctx.rng)
            holder = {}

            def faulty():
                holder["f"] = C.build(spec)
                return holder["f"].fit(bad, **kw)
            return dict(control=lambda: C.build(spec).fit(ctx.y_train, **kw), faulty=faulty,
                        fresh=lambda: holder.get("f"), sig={"forecaster": _k(spec)})
        cell("fit/" + m, "malformed_y", "entry_forecaster")(fit_cell)

        def update_cell(ctx, m=m):
            spec = ctx.forecaster(["naive", "naive_mean", "trend", "reduce_rec", "ensemble", "ttf", "mux"])
            f = C.build(spec).fit(ctx.y_train, fh=list(ctx.steps))
            g = C.build(spec).fit(ctx.y_train, fh=list(ctx.steps))
            bad = malform_y(m, ctx.y_new, ctx.rng)
            up = ctx.rng.random() < 0.5
            before = (f.cutoff, len(f._y))
            return dict(control=lambda: g.update(ctx.y_new, update_params=up),
                        faulty=lambda: f.update(bad, update_params=up),
                        after=lambda: f.predict(list(ctx.steps)),
                        unchanged=lambda: (f.cutoff, len(f._y)) == before,
                        sig={"forecaster": _k(spec), "update_params": up})
        if m != "y_empty":  # an empty update batch is explicitly allowed by the base class
            cell("update/" + m, "malformed_y", "entry_forecaster")(update_cell)

        def update_predict_cell(ctx, m=m):
            from sktime.forecasting.model_selection import SlidingWindowSplitter
            spec = ctx.forecaster(["naive", "naive_mean", "trend", "reduce_rec"])
            f = C.build(spec).fit(ctx.y_train, fh=[1])
            g = C.build(spec).fit(ctx.y_train, fh=[1])
            bad = malform_y(m, ctx.y_new, ctx.rng)
            cv = lambda: SlidingWindowSplitter(fh=[1], window_length=1)  # noqa
            before = (f.cutoff, len(f._y))
            return dict(control=lambda: g.update_predict(ctx.y_new, cv(), update_params=False),
                        faulty=lambda: f.update_predict(bad, cv(), update_params=False),
                        after=lambda: f.predict([1]),
                        unchanged=lambda: (f.cutoff, len(f._y)) == before,
                        sig={"forecaster": _k(spec)})
        cell("update_predict/" + m, "malformed_y", "entry_forecaster")(update_predict_cell)

        def evaluate_cell(ctx, m=m):
            from sktime.forecasting.model_evaluation import evaluate
            from sktime.forecasting.model_selection import SlidingWindowSplitter
            spec = ctx.forecaster(["naive", "trend"])
            cv = lambda: SlidingWindowSplitter(fh=list(ctx.steps), window_length=8, step_length=4)  # noqa
            bad = malform_y(m, ctx.y_train, ctx.rng)
            return dict(control=lambda: evaluate(C.build(spec), cv(), ctx.y_train),
                        faulty=lambda: evaluate(C.build(spec), cv(), bad), sig={})
        cell("evaluate/" + m, "malformed_y", "entry_evaluate")(evaluate_cell)

        def tuner_cell(ctx, m=m):
            from sktime.forecasting.model_selection import ForecastingGridSearchCV, SlidingWindowSplitter
            mk = lambda: ForecastingGridSearchCV(  # noqa
                C.build({"kind": "naive", "strategy": "last", "sp": 1, "window_length": None}),
                SlidingWindowSplitter(fh=list(ctx.steps), window_length=8, step_length=4),
                {"strategy": ["last", "mean"]})
            bad = malform_y(m, ctx.y_train, ctx.rng)
            holder = {}

            def faulty():
                holder["f"] = mk()
                return holder["f"].fit(bad)
            return dict(control=lambda: mk().fit(ctx.y_train), faulty=faulty,
                        fresh=lambda: holder.get("f"), sig={})
        cell("tuner_fit/" + m, "malformed_y", "entry_tuner")(tuner_cell)
    for m in ("y_unsorted", "y_decreasing_range", "y_empty"):
        def split_cell(ctx, m=m):
            sp = _splitter(ctx)
            bad = malform_y(m, ctx.y_train, ctx.rng)
            return dict(control=lambda: list(sp().split(ctx.y_train)),
                        faulty=lambda: list(sp().split(bad)), sig={})
        cell("split/" + m, "malformed_y", "entry_splitter")(split_cell)

        def tts_y_cell(ctx, m=m):
            from sktime.forecasting.model_selection import temporal_train_test_split
            bad = malform_y(m, ctx.y_train, ctx.rng)
            by_fh = ctx.rng.random() < 0.5
            kw = {"fh": list(ctx.steps)} if by_fh else {"test_size": 3}
            return dict(control=lambda: temporal_train_test_split(ctx.y_train, **kw),
                        faulty=lambda: temporal_train_test_split(bad, **kw), sig={"by_fh": by_fh})
        cell("tts/" + m, "malformed_y", "entry_tts")(tts_y_cell)


def _k(spec):
    return spec["kind"] if spec["kind"] != "reduce" else "reduce-" + spec["strategy"]


def _splitter(ctx, **over):
    from sktime.forecasting.model_selection import (
        CutoffSplitter, ExpandingWindowSplitter, SingleWindowSplitter, SlidingWindowSplitter)
    t = over.pop("type", None) or ctx.rng.choice(["sliding", "expanding", "single", "cutoff"])
    fh = over.pop("fh", list(ctx.steps))
    w = over.pop("window", ctx.rng.choice([4, 6, 8]))
    step = over.pop("step", ctx.rng.choice([1, 2, 3]))
    cut = over.pop("cutoffs", np.array([10, 13, 16]))
    if t == "sliding":
        sww = over.pop("start_with_window", True)
        return lambda: SlidingWindowSplitter(fh=fh, window_length=w, step_length=step,
                                             start_with_window=sww)
    if t == "expanding":
        return lambda: ExpandingWindowSplitter(fh=fh, initial_window=w, step_length=step)
    if t == "single":
        return lambda: SingleWindowSplitter(fh=fh, window_length=w)
    return lambda: CutoffSplitter(cut, fh=fh, window_length=w)


def _register_X_cells():
    for m in X_MALFORMS:
        def fit_cell(ctx, m=m):
            spec = ctx.forecaster(["naive", "naive_mean", "reduce_rec", "ensemble_x", "expsm"])
            bad = malform_X(m, ctx.X_train, ctx.rng)
            holder = {}

            def faulty():
                holder["f"] = C.build(spec)
                return holder["f"].fit(ctx.y_train, X=bad, fh=list(ctx.steps))
            return dict(control=lambda: C.build(spec).fit(ctx.y_train, X=ctx.X_train, fh=list(ctx.steps)),
                        faulty=faulty, fresh=lambda: holder.get("f"), sig={"forecaster": _k(spec)})
        cell("fit/" + m, "malformed_X", "entry_forecaster")(fit_cell)

        def update_cell(ctx, m=m):
            spec = ctx.forecaster(["naive", "naive_mean", "ensemble_x"])
            f = C.build(spec).fit(ctx.y_train, X=ctx.X_train, fh=list(ctx.steps))
            g = C.build(spec).fit(ctx.y_train, X=ctx.X_train, fh=list(ctx.steps))
            bad = malform_X(m, ctx.X_new, ctx.rng)
            up = ctx.rng.random() < 0.5
            before = (f.cutoff, len(f._y))
            return dict(control=lambda: g.update(ctx.y_new, X=ctx.X_new, update_params=up),
                        faulty=lambda: f.update(ctx.y_new, X=bad, update_params=up),
                        after=lambda: f.predict(list(ctx.steps)),
                        unchanged=lambda: (f.cutoff, len(f._y)) == before,
                        sig={"forecaster": _k(spec), "update_params": up})
        cell("update/" + m, "malformed_X", "entry_forecaster")(update_cell)

        def evaluate_cell(ctx, m=m):
            from sktime.forecasting.model_evaluation import evaluate
            from sktime.forecasting.model_selection import SlidingWindowSplitter
            spec = ctx.forecaster(["naive"])
            cv = lambda: SlidingWindowSplitter(fh=list(ctx.steps), window_length=8, step_length=4)  # noqa
            bad = malform_X(m, ctx.X_train, ctx.rng)
            return dict(control=lambda: evaluate(C.build(spec), cv(), ctx.y_train, ctx.X_train),
                        faulty=lambda: evaluate(C.build(spec), cv(), ctx.y_train, bad), sig={})
        cell("evaluate/" + m, "malformed_X", "entry_evaluate")(evaluate_cell)

        def tts_cell(ctx, m=m):
            from sktime.forecasting.model_selection import temporal_train_test_split as tts
            bad = malform_X(m, ctx.X_train, ctx.rng)
            return dict(control=lambda: tts(ctx.y_train, ctx.X_train, fh=list(ctx.steps)),
                        faulty=lambda: tts(ctx.y_train, bad, fh=list(ctx.steps)), sig={})
        if m != "X_ndarray":
            cell("tts/" + m, "malformed_X", "entry_tts")(tts_cell)


def _register_fh_cells():
    for m in FH_MALFORMS:
        def ctor_cell(ctx, m=m):
            from sktime.forecasting.base import ForecastingHorizon
            bad = malform_fh(m, ctx.steps)
            return dict(control=lambda: ForecastingHorizon(list(ctx.steps)),
                        faulty=lambda: _use_fh(bad if isinstance(bad, ForecastingHorizon)
                                               else ForecastingHorizon(bad), ctx), sig={})
        cell("fh_ctor/" + m, "malformed_fh", "entry_fh")(ctor_cell)

        def fit_cell(ctx, m=m):
            spec = ctx.forecaster()
            bad = malform_fh(m, ctx.steps)
            holder = {}

            def faulty():
                holder["f"] = C.build(spec)
                return holder["f"].fit(ctx.y_train, fh=bad)
            return dict(control=lambda: C.build(spec).fit(ctx.y_train, fh=list(ctx.steps)),
                        faulty=faulty, fresh=lambda: holder.get("f"), sig={"forecaster": _k(spec)})
        cell("fit/" + m, "malformed_fh", "entry_forecaster")(fit_cell)

        def predict_cell(ctx, m=m):
            spec = ctx.forecaster(["naive", "naive_mean", "trend", "reduce_rec", "ensemble", "ttf",
                                   "mux", "expsm"])
            f = C.build(spec).fit(ctx.y_train)
            bad = malform_fh(m, ctx.steps)
            return dict(control=lambda: C.build(spec).fit(ctx.y_train).predict(list(ctx.steps)),
                        faulty=lambda: f.predict(bad), after=lambda: f.predict(list(ctx.steps)),
                        sig={"forecaster": _k(spec)})
        cell("predict/" + m, "malformed_fh", "entry_forecaster")(predict_cell)

        def split_cell(ctx, m=m):
            t = ctx.rng.choice(["sliding", "expanding", "single", "cutoff"])
            good = _splitter(ctx, type=t, window=6, step=2)
            bad = _splitter(ctx, type=t, window=6, step=2, fh=malform_fh(m, ctx.steps))
            return dict(control=lambda: list(good().split(ctx.y_train)),
                        faulty=lambda: list(bad().split(ctx.y_train)), sig={"splitter": t})
        cell("split/" + m, "malformed_fh", "entry_splitter")(split_cell)

        def tts_cell(ctx, m=m):
            from sktime.forecasting.model_selection import temporal_train_test_split as tts
            bad = malform_fh(m, ctx.steps)
            return dict(control=lambda: tts(ctx.y_train, fh=list(ctx.steps)),
                        faulty=lambda: tts(ctx.y_train, fh=bad), sig={})
        cell("tts/" + m, "malformed_fh", "entry_tts")(tts_cell)

    def split_absolute(ctx):
        from sktime.forecasting.base import ForecastingHorizon
        t = ctx.rng.choice(["sliding", "expanding", "single", "cutoff"])
        good = _splitter(ctx, type=t, window=6, step=2,
                         fh=ForecastingHorizon(list(ctx.steps), is_relative=True))
        bad = _splitter(ctx, type=t, window=6, step=2,
                        fh=ForecastingHorizon(pd.Index(list(ctx.steps), dtype=np.int64), is_relative=False))
        via = ctx.rng.choice(["split", "evaluate"])
        if via == "split":
            run = lambda mk: list(mk().split(ctx.y_train))  # noqa
        else:
            from sktime.forecasting.model_evaluation import evaluate
            run = lambda mk: evaluate(C.build(ctx.forecaster(["naive"])), mk(), ctx.y_train)  # noqa
        return dict(control=lambda: run(good), faulty=lambda: run(bad), sig={"splitter": t, "via": via})
    cell("split/fh_absolute", "malformed_fh", "entry_splitter")(split_absolute)

    def tuner_fit(ctx):
        from sktime.forecasting.model_selection import ForecastingGridSearchCV, SlidingWindowSplitter
        how = ctx.rng.choice(["fh_dup", "fh_frac_list", "fh_missing_required"])
        if how == "fh_missing_required":
            base_spec = ctx.forecaster(["reduce_multi", "reduce_dir"])
            grid = {"window_length": [3, 4]}
            bad, good = None, list(ctx.steps)
        else:
            base_spec = ctx.forecaster(["naive"])
            grid = {"strategy": ["last", "mean"]}
            bad, good = malform_fh(how, ctx.steps), list(ctx.steps)
        mk = lambda: ForecastingGridSearchCV(C.build(base_spec), SlidingWindowSplitter(  # noqa
            fh=list(ctx.steps), window_length=14, step_length=4), grid)
        holder = {}

        def faulty():
            holder["f"] = mk()
            return holder["f"].fit(ctx.y_train, fh=bad)
        # (the search itself runs on its own valid horizons; the rejection comes from the re-fit)
        return dict(control=lambda: mk().fit(ctx.y_train, fh=good), faulty=faulty,
                    fresh=lambda: holder.get("f"), sig={"how": how})
    cell("tuner_fit/fh_rejected_at_refit", "malformed_fh", "entry_tuning")(tuner_fit)

    def missing_update_predict(ctx):
        # fitted without a horizon, none ever seen, and none in the call (no splitter either)
        naive3 = {"kind": "naive", "strategy": ctx.rng.choice(["last", "mean"]), "sp": 1, "window_length": 3}
        spec = ctx.rng.choice([naive3, {"kind": "reduce", "strategy": "recursive", "window_length": 3,
                                        "regressor": "stub"}])
        f = C.build(spec).fit(ctx.y_train)
        return dict(control=lambda: C.build(spec).fit(ctx.y_train, fh=[1, 2]).update_predict(ctx.y_new),
                    faulty=lambda: f.update_predict(ctx.y_new), after=lambda: f.predict(list(ctx.steps)),
                    sig={"forecaster": _k(spec)})
    cell("update_predict/fh_missing", "missing_or_different_fh", "entry_forecaster")(missing_update_predict)

    def missing_predict(ctx):
        spec = ctx.forecaster(["naive", "naive_mean", "trend", "reduce_rec", "ensemble", "ttf", "mux",
                               "expsm"])
        f = C.build(spec).fit(ctx.y_train)
        return dict(control=lambda: C.build(spec).fit(ctx.y_train).predict(list(ctx.steps)),
                    faulty=lambda: f.predict(), after=lambda: f.predict(list(ctx.steps)),
                    sig={"forecaster": _k(spec)})
    cell("predict/fh_missing", "missing_or_different_fh", "entry_forecaster")(missing_predict)

    def missing_fit(ctx):
        spec = ctx.forecaster(["reduce_dir", "reduce_multi", "reduce_dirrec", "stack", "ttf_req"])
        holder = {}

        def faulty():
            holder["f"] = C.build(spec)
            return holder["f"].fit(ctx.y_train)
        return dict(control=lambda: C.build(spec).fit(ctx.y_train, fh=list(ctx.steps)), faulty=faulty,
                    fresh=lambda: holder.get("f"), sig={"forecaster": _k(spec)})
    cell("fit/fh_missing_required", "missing_or_different_fh", "entry_forecaster")(missing_fit)

    def missing_fit_again(ctx):
        spec = ctx.forecaster(["reduce_dir", "reduce_multi", "reduce_dirrec", "stack", "ttf_req", "ttf_req"])
        f = C.build(spec).fit(ctx.y_train, fh=list(ctx.steps))
        g = C.build(spec).fit(ctx.y_train, fh=list(ctx.steps))
        return dict(control=lambda: g.fit(ctx.y_train, fh=list(ctx.steps)),
                    faulty=lambda: f.fit(ctx.y_train.iloc[:-1]),
                    sig={"forecaster": _k(spec) + ("+req" if spec["kind"] == "ttf" else "")})
    cell("fit/fh_missing_required_on_second_fit", "missing_or_different_fh", "entry_forecaster")(missing_fit_again)

    def different(ctx):
        spec = ctx.forecaster(["reduce_dir", "reduce_multi", "reduce_dirrec", "stack"])
        f = C.build(spec).fit(ctx.y_train, fh=list(ctx.steps))
        r = ctx.rng.random()
        if r < 0.35:
            other = list(ctx.steps) + [max(ctx.steps) + 1]
        elif r < 0.6 or len(ctx.steps) == 1:
            other = [s + 1 for s in ctx.steps]
        elif r < 0.8:
            other = list(ctx.steps)[:-1]          # a proper subset of the fitted horizon
        else:
            other = [ctx.steps[-1]]               # a single step out of the fitted horizon
        as_abs = ctx.rng.random() < 0.35
        if as_abs:
            # the differing horizon written in the other representation (absolute time points)
            from sktime.forecasting.base import ForecastingHorizon
            cut = int(ctx.y_train.index[-1])
            other = ForecastingHorizon(pd.Index([cut + s for s in other], dtype=np.int64), is_relative=False)
        return dict(control=lambda: C.build(spec).fit(ctx.y_train, fh=list(ctx.steps)).predict(list(ctx.steps)),
                    faulty=lambda: f.predict(other), after=lambda: f.predict(),
                    sig={"forecaster": _k(spec), "absolute": as_abs})
    cell("predict/fh_different_from_fit", "missing_or_different_fh", "entry_forecaster")(different)

    def different_same_integers(ctx):
        # fitted with the steps [s1, s2, ..] on a series ending at time -1, then asked for the
        # absolute time points [s1, s2, ..]: other time points (one step further each), written
        # with the same integers
        from sktime.forecasting.base import ForecastingHorizon
        spec = ctx.forecaster(["reduce_dir", "reduce_multi", "reduce_dirrec", "stack"])
        y2 = ctx.y_train.copy()
        y2.index = pd.RangeIndex(-len(y2), 0)
        f = C.build(spec).fit(y2, fh=list(ctx.steps))
        other = ForecastingHorizon(pd.Index(list(ctx.steps), dtype=np.int64), is_relative=False)
        return dict(control=lambda: C.build(spec).fit(y2, fh=list(ctx.steps)).predict(list(ctx.steps)),
                    faulty=lambda: f.predict(other), after=lambda: f.predict(),
                    sig={"forecaster": _k(spec), "same_integers": True})
    cell("predict/fh_same_integers_other_kind", "missing_or_different_fh", "entry_forecaster")(
        different_same_integers)

    def different_in_update_predict(ctx):
        # the rolling variant: a splitter whose horizon differs from the fitted one
        from sktime.forecasting.model_selection import SlidingWindowSplitter
        spec = ctx.forecaster(["reduce_dir", "reduce_multi", "reduce_dirrec"])
        steps = list(ctx.steps)
        other = [s + 1 for s in steps]
        n = len(ctx.y_train)
        y_fit, y_new = ctx.y_train.iloc[:n - 10], ctx.y_train.iloc[n - 10:]
        f = C.build(spec).fit(y_fit, fh=steps)
        mk = lambda fh_: SlidingWindowSplitter(fh=fh_, window_length=2, step_length=2,  # noqa
                                               start_with_window=True)
        return dict(control=lambda: C.build(spec).fit(y_fit, fh=steps).update_predict(y_new, mk(steps)),
                    faulty=lambda: f.update_predict(y_new, mk(other)), after=lambda: f.predict(),
                    sig={"forecaster": _k(spec), "via": "update_predict"})
    cell("update_predict/fh_different_from_fit", "missing_or_different_fh", "entry_forecaster")(
        different_in_update_predict)


def _scaler():
    """An estimator with fit() that is not a regressor."""
    from sklearn.preprocessing import StandardScaler
    return StandardScaler()


def _use_fh(fh, ctx):
    """A horizon object that could be constructed must still be rejected when used."""
    from sktime.utils.validation.forecasting import check_fh
    fh = check_fh(fh)
    return fh.to_absolute(ctx.y_train.index[-1])


def _register_int_cells():
    for m in INT_MALFORMS:
        for what in ("window_length", "step_length", "initial_window"):
            def split_cell(ctx, m=m, what=what):
                from sktime.forecasting.model_selection import (
                    ExpandingWindowSplitter, SingleWindowSplitter, SlidingWindowSplitter)
                valid = ctx.rng.choice([2, 3, 4])
                bad = malform_int(m, valid)
                fh = list(ctx.steps)
                if what == "window_length":
                    t = ctx.rng.choice(["sliding", "single", "cutoff"])
                    good = _splitter(ctx, type=t, window=valid + 3)
                    badsp = _splitter(ctx, type=t, window=bad)
                elif what == "step_length":
                    t = ctx.rng.choice(["sliding", "expanding"])
                    good = _splitter(ctx, type=t, window=6, step=valid)
                    badsp = _splitter(ctx, type=t, window=6, step=bad)
                else:
                    t = ctx.rng.choice(["sliding_initial", "expanding"])
                    if t == "expanding":
                        good = lambda: ExpandingWindowSplitter(fh=fh, initial_window=valid + 4)  # noqa
                        badsp = lambda: ExpandingWindowSplitter(fh=fh, initial_window=bad)  # noqa
                    else:
                        good = lambda: SlidingWindowSplitter(fh=fh, window_length=3, initial_window=valid + 4)  # noqa
                        badsp = lambda: SlidingWindowSplitter(fh=fh, window_length=3, initial_window=bad)  # noqa
                # the splitter's other two entry points take the same settings
                via = ctx.rng.choice(["split", "split", "get_cutoffs", "get_n_splits"]) \
                    if t in ("sliding", "expanding", "sliding_initial") else "split"
                use = {"split": lambda sp: list(sp.split(ctx.y_train)),
                       "get_cutoffs": lambda sp: sp.get_cutoffs(ctx.y_train),
                       "get_n_splits": lambda sp: sp.get_n_splits(ctx.y_train)}[via]
                return dict(control=lambda: use(good()), faulty=lambda: use(badsp()),
                            sig={"splitter": t, "param": what, "via": via})
            cell("split/%s_%s" % (what, m), "malformed_window_step_sp", "entry_splitter")(split_cell)

        def naive_window(ctx, m=m):
            from sktime.forecasting.naive import NaiveForecaster
            strat = ctx.rng.choice(["mean", "drift"])
            bad = malform_int(m, 4)
            holder = {}

            def faulty():
                holder["f"] = NaiveForecaster(strategy=strat, window_length=bad)
                return holder["f"].fit(ctx.y_train).predict(list(ctx.steps))
            return dict(control=lambda: NaiveForecaster(strategy=strat, window_length=4).fit(ctx.y_train).predict(list(ctx.steps)),
                        faulty=faulty, fresh=lambda: holder.get("f"), sig={"strategy": strat})
        cell("naive/window_length_" + m, "malformed_window_step_sp", "entry_forecaster")(naive_window)

        def naive_sp(ctx, m=m):
            from sktime.forecasting.naive import NaiveForecaster
            strat = ctx.rng.choice(["last", "mean"])
            bad = malform_int(m, 3)
            holder = {}

            def faulty():
                holder["f"] = NaiveForecaster(strategy=strat, sp=bad)
                return holder["f"].fit(ctx.y_train).predict(list(ctx.steps))
            return dict(control=lambda: NaiveForecaster(strategy=strat, sp=3).fit(ctx.y_train).predict(list(ctx.steps)),
                        faulty=faulty, fresh=lambda: holder.get("f"), sig={"strategy": strat})
        if m != "bool":  # sp=True equals 1 and behaves as the valid sp=1
            cell("naive/sp_" + m, "malformed_window_step_sp", "entry_forecaster")(naive_sp)

        def reduce_window(ctx, m=m):
            from sktime.forecasting.compose import make_reduction
            strat = ctx.rng.choice(["recursive", "direct", "multioutput", "dirrec"])
            bad = malform_int(m, 3)
            holder = {}

            def faulty():
                holder["f"] = make_reduction(peers.StubRegressor(), strategy=strat, window_length=bad)
                return holder["f"].fit(ctx.y_train, fh=list(ctx.steps)).predict()
            return dict(control=lambda: make_reduction(peers.StubRegressor(), strategy=strat, window_length=3).fit(ctx.y_train, fh=list(ctx.steps)).predict(),
                        faulty=faulty, fresh=lambda: holder.get("f"), sig={"strategy": strat})
        cell("reduce/window_length_" + m, "malformed_window_step_sp", "entry_forecaster")(reduce_window)

        def reduce_step(ctx, m=m):
            # the reducer classes constructed directly (make_reduction only passes the default)
            from sktime.forecasting.compose import (
                DirectTabularRegressionForecaster, MultioutputTabularRegressionForecaster,
                RecursiveTabularRegressionForecaster)
            cls = ctx.rng.choice([DirectTabularRegressionForecaster, MultioutputTabularRegressionForecaster,
                                  RecursiveTabularRegressionForecaster])
            bad = malform_int(m, 1)
            holder = {}

            def faulty():
                holder["f"] = cls(peers.StubRegressor(), window_length=3, step_length=bad)
                return holder["f"].fit(ctx.y_train, fh=list(ctx.steps)).predict()
            return dict(control=lambda: cls(peers.StubRegressor(), window_length=3, step_length=1).fit(
                ctx.y_train, fh=list(ctx.steps)).predict(),
                faulty=faulty, fresh=lambda: holder.get("f"), sig={"class": cls.__name__})
        if m != "bool":  # (True == 1, the valid default)
            cell("reduce/step_length_" + m, "malformed_window_step_sp", "entry_forecaster")(reduce_step)

        def theta_sp(ctx, m=m):
            from sktime.forecasting.theta import ThetaForecaster
            bad = malform_int(m, 2)
            holder = {}
            des = ctx.rng.random() < 0.6   # (the period is validated whether or not it is used)

            def faulty():
                holder["f"] = ThetaForecaster(sp=bad, deseasonalize=des)
                return holder["f"].fit(ctx.y_train).predict(list(ctx.steps))
            return dict(control=lambda: ThetaForecaster(sp=2, deseasonalize=des).fit(ctx.y_train).predict(list(ctx.steps)),
                        faulty=faulty, fresh=lambda: holder.get("f"), sig={"deseasonalize": des})
        if m != "bool":
            cell("theta/sp_" + m, "malformed_window_step_sp", "entry_forecaster")(theta_sp)

    # ---- windows that do not fit the series
    def split_oversize(ctx):
        # (CutoffSplitter clips windows reaching before the start of the series by design;
        # in-sample prediction relies on it, so no rejection is demanded there)
        t = ctx.rng.choice(["sliding", "expanding", "single"])
        n = len(ctx.y_train)
        hmax = max(ctx.steps)
        # largest window that still fits (control) vs the smallest one that does not (fault)
        extra = {}
        if t == "sliding" and ctx.rng.random() < 0.5:
            extra = {"start_with_window": False}   # (what update_predict builds by default)
        if ctx.rng.random() < 0.5:
            good = _splitter(ctx, type=t, window=n - hmax, **extra)
            bad = _splitter(ctx, type=t, window=n - hmax + 1, **extra)
        else:
            good = _splitter(ctx, type=t, window=6, **extra)
            bad = _splitter(ctx, type=t, window=n + ctx.rng.choice([0, 1, 5]), **extra)
        return dict(control=lambda: list(good().split(ctx.y_train)),
                    faulty=lambda: list(bad().split(ctx.y_train)),
                    sig={"splitter": t, "start_with_window": not extra})
    cell("split/window_does_not_fit", "window_does_not_fit", "entry_splitter")(split_oversize)

    def initial_oversize(ctx):
        # the regular window fits, the initial window does not
        from sktime.forecasting.model_selection import SlidingWindowSplitter
        n = len(ctx.y_train)
        hmax = max(ctx.steps)
        w = ctx.rng.choice([3, 4])
        good = lambda: SlidingWindowSplitter(fh=list(ctx.steps), window_length=w,  # noqa
                                             initial_window=n - hmax)
        bad = lambda: SlidingWindowSplitter(fh=list(ctx.steps), window_length=w,  # noqa
                                            initial_window=n - hmax + ctx.rng.choice([1, 3]))
        return dict(control=lambda: list(good().split(ctx.y_train)),
                    faulty=lambda: list(bad().split(ctx.y_train)), sig={"splitter": "sliding_initial"})
    cell("split/initial_window_does_not_fit", "window_does_not_fit", "entry_splitter")(initial_oversize)

    def cutoff_beyond(ctx):
        n = len(ctx.y_train)
        good = _splitter(ctx, type="cutoff", window=4, cutoffs=np.array([8, 12]))
        # (from far beyond the series down to the exact boundary: the last observation as
        # cutoff leaves no test point)
        bad = _splitter(ctx, type="cutoff", window=4,
                        cutoffs=np.array([8, ctx.rng.choice([n + 2, n, n - 1])]), fh=[1])
        return dict(control=lambda: list(good().split(ctx.y_train)),
                    faulty=lambda: list(bad().split(ctx.y_train)), sig={"splitter": "cutoff"})
    cell("split/cutoff_beyond_series", "window_does_not_fit", "entry_splitter")(cutoff_beyond)

    def cutoff_fh_beyond(ctx):
        # the last cutoff is fine for a short horizon but a far (gapped) step leaves the series
        n = len(ctx.y_train)
        good = _splitter(ctx, type="cutoff", window=4, cutoffs=np.array([8, n - 6]), fh=[2, 5])
        bad = _splitter(ctx, type="cutoff", window=4, cutoffs=np.array([8, n - 4]),
                        fh=ctx.rng.choice([[2, 5], [5], [1, 6]]))
        return dict(control=lambda: list(good().split(ctx.y_train)),
                    faulty=lambda: list(bad().split(ctx.y_train)), sig={"splitter": "cutoff"})
    cell("split/cutoff_fh_beyond_series", "window_does_not_fit", "entry_splitter")(cutoff_fh_beyond)

    def cutoff_unsorted_beyond(ctx):
        # cutoffs may be given in any order (they are sorted on use): the feasibility checks are
        # about the largest one, wherever it stands in the argument
        n = len(ctx.y_train)
        mid = ctx.rng.choice([6, 8, 10])
        good = _splitter(ctx, type="cutoff", window=4, cutoffs=np.array([n - 6, mid]), fh=[2, 5])
        if ctx.rng.random() < 0.5:
            bad = _splitter(ctx, type="cutoff", window=4, cutoffs=np.array([n - 4, mid]),
                            fh=ctx.rng.choice([[2, 5], [5], [1, 6]]))
        else:
            bad = _splitter(ctx, type="cutoff", window=4,
                            cutoffs=np.array([ctx.rng.choice([n + 2, n, n - 1]), mid]), fh=[1])
        return dict(control=lambda: list(good().split(ctx.y_train)),
                    faulty=lambda: list(bad().split(ctx.y_train)), sig={"splitter": "cutoff_unsorted"})
    cell("split/cutoff_unsorted_beyond_series", "window_does_not_fit", "entry_splitter")(cutoff_unsorted_beyond)

    def cutoff_float(ctx):
        good = _splitter(ctx, type="cutoff", window=4, cutoffs=np.array([8, 12]))
        bad = _splitter(ctx, type="cutoff", window=4, cutoffs=np.array([8.5, 12.0]))
        return dict(control=lambda: list(good().split(ctx.y_train)),
                    faulty=lambda: list(bad().split(ctx.y_train)), sig={"splitter": "cutoff"})
    cell("split/cutoffs_fractional", "malformed_window_step_sp", "entry_splitter")(cutoff_float)

    def naive_oversize(ctx):
        from sktime.forecasting.naive import NaiveForecaster
        strat = ctx.rng.choice(["mean", "drift"])
        n = len(ctx.y_train)
        holder = {}

        def faulty():
            holder["f"] = NaiveForecaster(strategy=strat, window_length=n + ctx.rng.choice([1, 4]))
            return holder["f"].fit(ctx.y_train)
        return dict(control=lambda: NaiveForecaster(strategy=strat, window_length=n).fit(ctx.y_train),
                    faulty=faulty, fresh=lambda: holder.get("f"), sig={"strategy": strat})
    cell("naive/window_does_not_fit", "window_does_not_fit", "entry_forecaster")(naive_oversize)

    def naive_sp_oversize(ctx):
        from sktime.forecasting.naive import NaiveForecaster
        n = len(ctx.y_train)
        holder = {}

        def faulty():
            holder["f"] = NaiveForecaster(strategy="last", sp=n + 1)
            return holder["f"].fit(ctx.y_train)
        return dict(control=lambda: NaiveForecaster(strategy="last", sp=4).fit(ctx.y_train),
                    faulty=faulty, fresh=lambda: holder.get("f"), sig={})
    cell("naive/sp_does_not_fit", "window_does_not_fit", "entry_forecaster")(naive_sp_oversize)

    def reduce_oversize(ctx):
        from sktime.forecasting.compose import make_reduction
        strat = ctx.rng.choice(["recursive", "direct", "multioutput", "dirrec"])
        n = len(ctx.y_train)
        holder = {}

        def faulty():
            holder["f"] = make_reduction(peers.StubRegressor(), strategy=strat, window_length=n)
            return holder["f"].fit(ctx.y_train, fh=list(ctx.steps))
        return dict(control=lambda: make_reduction(peers.StubRegressor(), strategy=strat, window_length=4).fit(ctx.y_train, fh=list(ctx.steps)),
                    faulty=faulty, fresh=lambda: holder.get("f"), sig={"strategy": strat})
    cell("reduce/window_does_not_fit", "window_does_not_fit", "entry_forecaster")(reduce_oversize)


def _register_strategy_cells():
    def naive(ctx):
        from sktime.forecasting.naive import NaiveForecaster
        holder = {}

        def faulty():
            holder["f"] = NaiveForecaster(strategy=ctx.rng.choice(["median", "LAST", "", None]))
            return holder["f"].fit(ctx.y_train)
        return dict(control=lambda: NaiveForecaster(strategy="last").fit(ctx.y_train), faulty=faulty,
                    fresh=lambda: holder.get("f"), sig={})
    cell("naive/unknown_strategy", "unknown_strategy", "entry_forecaster")(naive)

    def reduction(ctx):
        from sktime.forecasting.compose import make_reduction
        return dict(control=lambda: make_reduction(peers.StubRegressor(), strategy="recursive"),
                    faulty=lambda: make_reduction(peers.StubRegressor(),
                                                  strategy=ctx.rng.choice(["iterated", "Direct", None])).fit(
                        ctx.y_train, fh=list(ctx.steps)), sig={})
    cell("make_reduction/unknown_strategy", "unknown_strategy", "entry_forecaster")(reduction)

    def evaluate_strategy(ctx):
        from sktime.forecasting.model_evaluation import evaluate
        from sktime.forecasting.model_selection import SlidingWindowSplitter
        from sktime.forecasting.model_selection import CutoffSplitter, SingleWindowSplitter
        spec = ctx.forecaster(["naive"])
        folds = ctx.rng.choice(["many", "one_single", "one_cutoff"])
        if folds == "many":
            cv = lambda: SlidingWindowSplitter(fh=list(ctx.steps), window_length=8, step_length=4)  # noqa
        elif folds == "one_single":
            cv = lambda: SingleWindowSplitter(fh=list(ctx.steps), window_length=8)  # noqa
        else:
            cv = lambda: CutoffSplitter(np.array([12]), fh=list(ctx.steps), window_length=8)  # noqa
        holder = {}

        def faulty():
            holder["f"] = C.build(spec)
            return evaluate(holder["f"], cv(), ctx.y_train,
                            strategy=ctx.rng.choice(["Refit", "fit", None, 1, "updat"]))
        # (the forecaster handed in must not have been fitted by a call that is rejected)
        return dict(control=lambda: evaluate(C.build(spec), cv(), ctx.y_train, strategy="update"),
                    faulty=faulty, fresh=lambda: holder.get("f"), sig={"folds": folds})
    cell("evaluate/unknown_strategy", "unknown_strategy", "entry_evaluate")(evaluate_strategy)

    def aggfunc(ctx):
        from sktime.forecasting.compose import EnsembleForecaster
        single = ctx.rng.random() < 0.3    # (nothing to aggregate, but still an unknown name)
        mk = lambda a: EnsembleForecaster(  # noqa
            [("a", C.build(ctx.forecaster(["naive"])))] + ([] if single else [
                ("b", C.build(ctx.forecaster(["trend"])))]), aggfunc=a)
        return dict(control=lambda: mk("median").fit(ctx.y_train).predict(list(ctx.steps)),
                    faulty=lambda: mk(ctx.rng.choice(["sum", "avg", None])).fit(ctx.y_train).predict(list(ctx.steps)),
                    sig={})
    cell("ensemble/unknown_aggfunc", "unknown_strategy", "entry_composite")(aggfunc)


def _register_composite_cells():
    from functools import partial

    def ens_like(ctx, which, defect):
        from sklearn.linear_model import LinearRegression
        from sktime.forecasting.compose import (
            EnsembleForecaster, MultiplexForecaster, StackingForecaster)
        a, b = C.build(ctx.forecaster(["naive"])), C.build(ctx.forecaster(["trend"]))
        good = [("a", a), ("b", b)]
        bad = {"empty": [], "dup_names": [("a", a), ("a", b)], "dunder_name": [("a__x", a), ("b", b)],
               "name_is_ctor_arg": [("n_jobs", a), ("b", b)] if which != "mux" else [("forecasters", a), ("b", b)],
               "non_forecaster_member": [("a", a), ("b", LinearRegression())],
               "not_a_list": (("a", a), ("b", b))}[defect]

        def mk(ms):
            if which == "ensemble":
                return EnsembleForecaster(ms)
            if which == "stack":
                return StackingForecaster(ms, final_regressor=peers.StubRegressor())
            first = ms[0][0] if len(ms) and isinstance(ms[0], tuple) else "a"
            return MultiplexForecaster(ms, selected_forecaster=first)
        holder = {}

        def faulty():
            holder["f"] = mk(bad)
            return holder["f"].fit(ctx.y_train, fh=list(ctx.steps))
        return dict(control=lambda: mk(good).fit(ctx.y_train, fh=list(ctx.steps)), faulty=faulty,
                    fresh=lambda: holder.get("f"), sig={"composite": which, "defect": defect})
    for which in ("ensemble", "stack", "mux"):
        for defect in ("empty", "dup_names", "dunder_name", "name_is_ctor_arg",
                       "non_forecaster_member", "not_a_list"):
            if which == "mux" and defect in ("not_a_list",):
                continue
            cell("%s/%s" % (which, defect), "ill_formed_composite", "entry_composite")(
                partial(ens_like, which=which, defect=defect))

    def ttf(ctx, defect):
        from sklearn.preprocessing import StandardScaler
        from sktime.forecasting.compose import TransformedTargetForecaster
        from sktime.transformations.series.detrend import Detrender
        f = C.build(ctx.forecaster(["naive"]))
        good = [("d", Detrender()), ("f", f)]
        bad = {"empty": [], "dup_names": [("d", Detrender()), ("d", f)],
               "dunder_name": [("d__x", Detrender()), ("f", f)],
               "name_is_ctor_arg": [("steps", Detrender()), ("f", f)],
               "non_transformer_step": [("d", StandardScaler()), ("f", f)],
               "forecaster_as_step": [("d", C.build(ctx.forecaster(["trend"]))), ("f", f)],
               "last_not_forecaster": [("d", Detrender()), ("f", Detrender())]}[defect]
        holder = {}

        def faulty():
            holder["f"] = TransformedTargetForecaster(bad)
            return holder["f"].fit(ctx.y_train, fh=list(ctx.steps))
        return dict(control=lambda: TransformedTargetForecaster(good).fit(ctx.y_train, fh=list(ctx.steps)),
                    faulty=faulty, fresh=lambda: holder.get("f"), sig={"composite": "ttf", "defect": defect})
    for defect in ("empty", "dup_names", "dunder_name", "name_is_ctor_arg", "non_transformer_step",
                   "forecaster_as_step", "last_not_forecaster"):
        cell("ttf/%s" % defect, "ill_formed_composite", "entry_composite")(partial(ttf, defect=defect))

    def final_regressor(ctx):
        from sktime.forecasting.compose import StackingForecaster
        a, b = C.build(ctx.forecaster(["naive"])), C.build(ctx.forecaster(["trend"]))
        holder = {}

        def faulty():
            holder["f"] = StackingForecaster([("a", a), ("b", b)],
                                             final_regressor=ctx.rng.choice([
                                                 C.build(ctx.forecaster(["naive"])), None, "ols",
                                                 _scaler(), _scaler()]))
            return holder["f"].fit(ctx.y_train, fh=list(ctx.steps))
        return dict(control=lambda: StackingForecaster([("a", a), ("b", b)], final_regressor=peers.StubRegressor()).fit(ctx.y_train, fh=list(ctx.steps)),
                    faulty=faulty, fresh=lambda: holder.get("f"), sig={"composite": "stack"})
    cell("stack/non_regressor_final", "ill_formed_composite", "entry_composite")(final_regressor)

    def mux_unknown(ctx):
        from sktime.forecasting.compose import MultiplexForecaster
        a, b = C.build(ctx.forecaster(["naive"])), C.build(ctx.forecaster(["trend"]))
        holder = {}

        def faulty():
            holder["f"] = MultiplexForecaster([("a", a), ("b", b)], selected_forecaster="c")
            return holder["f"].fit(ctx.y_train)
        return dict(control=lambda: MultiplexForecaster([("a", a), ("b", b)], selected_forecaster="b").fit(ctx.y_train),
                    faulty=faulty, fresh=lambda: holder.get("f"), sig={"composite": "mux"})
    cell("mux/unknown_selected", "ill_formed_composite", "entry_composite")(mux_unknown)


_REGISTERED = False


def _ensure():
    global _REGISTERED
    if not _REGISTERED:
        _register_y_cells()
        _register_X_cells()
        _register_fh_cells()
        _register_int_cells()
        _register_strategy_cells()
        _register_composite_cells()
        _REGISTERED = True


# ------------------------------------------------------------------ engine
def generate(prop, rng, tier):
    _ensure()
    names = sorted(CELLS)
    return {"cell": names[rng.randrange(len(names))], "ctx_seed": rng.randint(0, 10 ** 9)}


def execute(prop, scen):
    _ensure()
    res = RunResult()
    peers.reset()
    C.reset_caches()
    name = scen["cell"]
    fn, groups = CELLS[name]
    for g in groups:
        res.probe(g)
    res.real.add("cell:" + name.split("/")[0])
    res.fault("malformed_input")
    digest = hashlib.sha256(name.encode())
    sc = sched.Scheduler("fifo", 0)
    with sched.scenario_schedule(sc):
        ctx = Ctx(scen)
        try:
            c = fn(ctx)
        except Exception as e:  # noqa
            # the valid context itself could not be built: that is the control failing
            res.violate("C20.control_rejected", "[%s] building the valid context raised %s: %s" % (
                name, type(e).__name__, str(e)[:200]), cell=name)
            res.digest = digest.hexdigest()[:16]
            return res
        sig = dict(c.get("sig") or {}, cell=name)
        # ---- control: valid arguments are accepted
        try:
            c["control"]()
            res.probe("control_accepted")
        except Exception as e:  # noqa
            res.violate("C20.control_rejected", "[%s] the valid call raised %s: %s" % (
                name, type(e).__name__, str(e)[:200]), **sig)
            res.digest = digest.hexdigest()[:16]
            return res
        res.ops += 1
        # ---- the same call with exactly one aspect malformed
        res.nontrivial = True
        try:
            out = c["faulty"]()
        except ACCEPTED_ERRORS as e:
            res.probe("rejected_as_required")
            digest.update(type(e).__name__.encode())
        except Exception as e:  # noqa
            res.violate("C20.wrong_exception", "[%s] rejected with %s (%s), not ValueError / TypeError / "
                        "NotImplementedError" % (name, type(e).__name__, str(e)[:160]),
                        exc=type(e).__name__, **sig)
        else:
            res.violate("C20.accepted", "[%s] the malformed call was accepted and returned %s" % (
                name, _brief(out)), **sig)
        res.ops += 1
        # ---- no fitted state after a rejected fit
        if c.get("fresh") and not res.violations:
            obj = c["fresh"]()
            if obj is not None:
                res.probe("fit_rejected_leaves_unfitted")
                if getattr(obj, "is_fitted", False):
                    res.violate("C20.fitted_state_after_rejection", "[%s] fit was rejected but the "
                                "estimator reports is_fitted True" % name, **sig)
        # ---- a rejected call leaves the forecaster's state (cutoff, remembered data) alone
        if c.get("unchanged") and not res.violations:
            res.probe("state_unchanged_after_rejection")
            try:
                same = c["unchanged"]()
            except Exception:
                same = False
            if not same:
                res.violate("C20.state_changed_by_rejected_call", "[%s] the call was rejected but "
                            "the forecaster's cutoff / remembered data changed" % name, **sig)
        # ---- the object still works for a valid call
        if c.get("after") and not res.violations:
            try:
                c["after"]()
                res.probe("valid_call_after_rejection")
            except Exception as e:  # noqa
                res.violate("C20.broken_after_rejection", "[%s] a valid call after the rejected one "
                            "raised %s: %s" % (name, type(e).__name__, str(e)[:160]), **sig)
    res.states.add(short_hash([name]))
    res.digest = digest.hexdigest()[:16]
    # identity of the case = cell x the variant actually drawn inside it x outcome (not the
    # context seed: thousands of seeds exercise the same few hundred distinct cases)
    res.variant = short_hash([name, sig, res.digest])
    return res


def _brief(o):
    if isinstance(o, pd.Series):
        return "Series %s" % C.fmt(o)
    s = repr(o)
    return s if len(s) < 100 else s[:97] + "..."


def shrink_candidates(prop, scen):
    # a scenario is already a single cell + context seed: try a few smaller seeds
    for s in range(5):
        if scen["ctx_seed"] != s:
            yield dict(scen, ctx_seed=s)
