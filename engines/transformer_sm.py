# -*- coding: utf-8 -*-
"""C13 - series transformers are invertible, index-preserving and aligned in time.

One transformer object is driven through a seeded history of fit / transform+
inverse_transform on stretches at arbitrary offsets / update / pickle, in lock
step with a twin whose integer time index is shifted by a constant."""
import hashlib
import json

import numpy as np
import pandas as pd

from engines import common as C
from simkit import peers, sched
from simkit.core import RunResult, ddmin_list, short_hash

LEVEL = {"C13": "exploration"}
TIERS = {"C13": (5000, 150, 150000, 1200)}
PROBES = {"C13": ["stretch_inside_training", "stretch_overlapping_end", "stretch_after_training", "stretch_before_training",
                  "update_between_transforms", "seasonal_phase_checked", "roundtrip_checked",
                  "fit_transform_checked", "index_preserving_checked", "shifted_twin_checked",
                  "nonzero_origin", "pickle_midway", "pipeline_as_transformer", "seasonal_fit_checked",
                  "reconfigured_and_refitted", "strided_stretch", "refitted_on_other_stretch",
                  "frozen_update_checked", "period_changed_and_refitted",
                  "fit_transform_on_fitted_instance", "unpaired_calls_checked",
                  "sibling_from_same_arguments", "other_instances_constructed", "refitted_on_structureless_series",
                  "failed_refit_checked", "non_consecutive_training_index", "integer_valued_series",
                  "update_with_older_data", "stale_update_inside_training"]}
FAULT_KINDS = {"C13": ["index_shift", "pickle_roundtrip", "update_interleaved", "overlap_batch",
                       "shared_constructor_arguments", "fit_raises_midway", "other_instance_interleaved"]}
RULE = {"C13": (
    "seeded transformer configuration x series x history of fit, round trips on stretches that "
    "start inside / across the end of / after the training series, interleaved update calls and "
    "pickling, with a lock-step twin on a shifted integer index. Non-trivial = at least one round "
    "trip on a stretch not starting at the training start and (an update in between or a non-zero "
    "shift); distinct = canonical scenario JSON.")}
ASSUMPTIONS = {"C13": [
    "inverse(transform(z)) is compared only where transform(z) is finite",
    "positive series for Box-Cox / log / multiplicative models, real series otherwise"]}

INVERTIBLE = {"boxcox", "log", "detrend", "deseason", "cdeseason", "adapt", "optional", "ttf_t"}
SAME_INDEX = {"log", "detrend", "deseason", "cdeseason", "adapt", "boxcox", "hampel", "imputer",
              "cos", "optional", "ttf_t"}


def gen_spec(rng):
    r = rng.random()
    if r < 0.07:
        # a trend removed by a window forecaster (forecast in-sample by moving the cutoff)
        return {"kind": "detrend", "forecaster": {"kind": "naive", "strategy": rng.choice(["last", "mean", "drift"]),
                                                  "sp": 1, "window_length": rng.choice([3, 4])}}
    if r < 0.62:
        t = C.gen_transformer(rng)
        if t["kind"] == "boxcox" and rng.random() < 0.4:
            t = dict(t, method="pearsonr")  # (scipy's bracket search can fail: tolerated at fit)
        return t
    if r < 0.72:
        return {"kind": "hampel", "window_length": rng.choice([3, 5, 7]), "n_sigma": rng.choice([2, 3])}
    if r < 0.82:
        return {"kind": "imputer", "method": rng.choice(["drift", "linear", "nearest", "mean",
                                                         "median", "ffill", "bfill"])}
    if r < 0.86:
        return {"kind": "cos"}
    if r < 0.9:
        # (not invertible, not index-preserving: here for the clause about the TAG - a
        # transformer is judged index-preserving by what its class declares)
        return {"kind": rng.choice(["acf", "pacf"])}
    ts, positive = [], True
    for _ in range(rng.randint(1, 2)):
        t = C.gen_transformer(rng)
        while not positive and C.needs_positive(t):
            t = C.gen_transformer(rng)
        ts.append(t)
        positive = positive and C.keeps_positive(t)
    if rng.random() < 0.3:
        # a step that a pipeline does not invert (tagged skip-inverse-transform), as in the
        # pipeline of the class's own docstring
        ts.insert(0, {"kind": "imputer", "method": rng.choice(["drift", "linear", "mean"])})
    return {"kind": "ttf_t", "transformers": ts}


def build(spec):
    k = spec["kind"]
    if k == "cos":
        from sktime.transformations.series.cos import CosineTransformer
        return CosineTransformer()
    if k in ("acf", "pacf"):
        from engines.purity import build_series_transformer
        return build_series_transformer(spec)
    if k == "ttf_t":
        return C.build({"kind": "ttf", "transformers": spec["transformers"],
                        "forecaster": {"kind": "naive", "strategy": "last", "sp": 1,
                                       "window_length": None}})
    return C.build_transformer(spec)


def _base(spec):
    while spec["kind"] == "optional":
        if spec.get("passthrough"):
            return {"kind": "passthrough"}
        spec = spec["transformer"]
    return spec


def _base0(spec):
    """innermost transformer spec whatever the passthrough flags say"""
    while spec["kind"] == "optional":
        spec = spec["transformer"]
    return spec


def _with_base(spec, **kw):
    if spec["kind"] == "optional":
        return dict(spec, transformer=_with_base(spec["transformer"], **kw))
    return dict(spec, **kw)


def _needs_pos(spec):
    if spec["kind"] == "ttf_t":
        return any(C.needs_positive(t) for t in spec["transformers"])
    return C.needs_positive(spec) if spec["kind"] not in ("cos", "hampel", "imputer", "acf", "pacf") else False


def _min_len(spec):
    k = spec["kind"]
    need = 8
    for t in ([spec] if k != "ttf_t" else spec["transformers"]):
        b = t
        while b["kind"] == "optional":   # whatever the flag says now: it may be flipped later
            b = b["transformer"]
        if b["kind"] in ("deseason", "cdeseason"):
            need = max(need, 2 * b.get("sp", 1) + 3)
        if b["kind"] == "boxcox":
            need = max(need, 12)
        if b["kind"] == "hampel":
            need = max(need, b.get("window_length", 5) + 4)
        if b["kind"] in ("acf", "pacf"):
            need = max(need, 14)
    return need


def generate(prop, rng, tier):
    big = tier == "thorough"
    spec = gen_spec(rng)
    n0 = _min_len(spec) + rng.randint(0, 14 if not big else 50)
    if spec.get("method") == "pearsonr":
        n0 += 10
    ops = [{"op": "fit", "n": n0}]
    total = n0
    minstretch = _min_len(spec) if _base(spec)["kind"] in ("hampel", "acf", "pacf") \
        or spec["kind"] == "ttf_t" else 1
    if _base(spec)["kind"] == "imputer":
        minstretch = 4
    for _ in range(rng.randint(2, 6 if not big else 10)):
        r = rng.random()
        if r < 0.6:
            where = rng.choice(["inside", "overlap", "after", "start", "before"])
            ops.append({"op": "roundtrip", "where": where, "off": rng.randint(0, 9),
                        "len": max(minstretch, rng.randint(1, 12)),
                        "stride": rng.choice([1, 1, 1, 2, 3]) if minstretch == 1 else 1})
        elif r < 0.82:
            take = rng.choice([1, 2, 3, 5, 8]) if minstretch == 1 else rng.choice([8, 10, 12])
            ops.append({"op": "update", "take": take, "overlap": rng.choice([0, 0, 1, 2]),
                        "up": rng.random() < 0.5, "before": rng.random() < 0.12,
                        "stale": rng.random() < 0.15})
            total += take
        elif r < 0.88:
            ops.append({"op": "fit_transform", "strided": rng.random() < 0.4})
        elif r < 0.92 and (spec["kind"] == "optional" or
                           spec["kind"] in ("deseason", "cdeseason")):
            sps = [k for k in (2, 3, 4, 5, 7) if 2 * k + 3 <= n0 and k != _base0(spec).get("sp")]
            if _base0(spec)["kind"] in ("deseason", "cdeseason") and sps and \
                    (spec["kind"] != "optional" or rng.random() < 0.6):
                ops.append({"op": "reconfigure", "what": "sp", "sp": rng.choice(sps)})
            elif spec["kind"] == "optional":
                ops.append({"op": "reconfigure", "what": "passthrough"})
        elif r < 0.94:
            ops.append({"op": "refit", "start": rng.randint(1, 7),
                        "via": rng.choice(["fit", "fit_transform"]),
                        "data": rng.choice(["same", "same", "flat"])})
        elif r < 0.955:
            ops.append({"op": "sibling", "start": rng.randint(0, 6)})
        elif r < 0.965:
            ops.append({"op": "failed_refit", "pos": rng.randint(1, 6), "how": rng.choice(["nan", "short"])})
        elif r < 0.98 and minstretch == 1:
            ops.append({"op": "unpaired", "where": rng.choice(["inside", "overlap", "after"]),
                        "off": rng.randint(0, 9), "len": rng.randint(2, 8),
                        "stride": rng.choice([2, 3]), "first": rng.choice(["transform", "inverse"])})
        else:
            ops.append({"op": "pickle"})
    if rng.random() < 0.2:
        ops.insert(rng.randint(1, len(ops)), {"op": "other_instances"})
    series_sp = rng.choice([2, 3, 4, 5, 7])
    if _base0(spec)["kind"] == "cdeseason" and spec["kind"] != "ttf_t":
        # a training series that IS seasonal at the configured period, and often a second fit
        # on one that is not
        series_sp = _base0(spec).get("sp", 2)
        if rng.random() < 0.5:
            ops.insert(rng.randint(1, len(ops)), {"op": "refit", "start": rng.randint(1, 5),
                                                  "via": "fit", "data": "flat"})
    return {"spec": spec, "ops": ops,
            "series": {"seed": rng.randint(0, 10 ** 6), "n": total + 30,
                       "origin": rng.choice([0, 0, 1, 7, 21, 100, -5, -40]),
                       "index": rng.choice(["range", "range", "int"]),
                       "sp": series_sp},
            "shift": rng.choice([-40, -3, 1, 2, 5, 17, 500]),
            "int_values": rng.random() < 0.15,
            # observations that precede the training series (stretches may start there)
            "pre": rng.choice([0, 3, 5, 8]) if _base0(spec)["kind"] in (
                "deseason", "cdeseason", "log", "boxcox", "adapt", "detrend", "cos") else 0,
            "outliers": rng.random() < 0.5}


def _series(scen, shift=0):
    """The whole series: scen["pre"] points before the training start, then the training
    series and everything after it."""
    s = scen["series"]
    pre = scen.get("pre", 0)
    y = C.make_series(s["seed"], s["n"] + pre, s["origin"] + shift - pre, s["index"], sp=s["sp"],
                      positive=True, noise=0.8)
    k = _base(scen["spec"])["kind"]
    if scen.get("int_values") and k not in ("hampel", "imputer"):
        y = y.round().astype("int64")      # counts: an integer-dtype series
    if k in ("hampel",) and scen.get("outliers"):
        rs = np.random.RandomState(s["seed"] + 5)
        pos = rs.choice(len(y), size=max(1, len(y) // 9), replace=False)
        y.iloc[pos] = y.iloc[pos] + 40.0
    if k == "imputer":
        rs = np.random.RandomState(s["seed"] + 6)
        pos = rs.choice(np.arange(1, len(y) - 1), size=max(1, len(y) // 8), replace=False)
        y.iloc[pos] = np.nan
    return y


def execute(prop, scen):
    from sklearn.base import clone
    res = RunResult()
    peers.reset()
    C.reset_caches()
    spec = scen["spec"]
    kind = spec["kind"]
    base = _base(spec)
    PRE = scen.get("pre", 0)
    full = _series(scen)
    c = scen["shift"]
    full2 = _series(scen, c)
    y, y2 = full.iloc[PRE:], full2.iloc[PRE:]
    res.fault("index_shift")
    res.real.update(C.class_names(spec) if kind not in ("cos", "ttf_t", "acf", "pacf") else
                    {"transformations.series.acf.%s" % kind} if kind in ("acf", "pacf") else
                    {"transformations.series.cos.CosineTransformer"} if kind == "cos" else
                    C.class_names({"kind": "ttf", "transformers": spec["transformers"],
                                   "forecaster": {"kind": "naive"}}))
    if kind == "ttf_t":
        res.probe("pipeline_as_transformer")
    if scen["series"]["origin"] != 0:
        res.probe("nonzero_origin")
    if scen.get("int_values"):
        res.probe("integer_valued_series")
    digest = hashlib.sha256()
    t, t2 = build(spec), build(spec)
    tag_same_index = bool(type(t)._all_tags().get("transform-returns-same-time-index", False))
    fitted = False
    n_fit = 0
    pos = 0
    updates_since_fit = 0
    seasonal_ref = None
    offstart = 0
    stale_seen = False      # a batch of older data moved the cutoff back since the last fit

    def v(cls, detail, **sig):
        sig.setdefault("transformer", base["kind"] if kind != "ttf_t" else "ttf_t")
        res.violate("C13." + cls, detail, **sig)

    def both(label, fn):
        outs = []
        for who, tr, yy in (("primary", t, y), ("twin", t2, y2)):
            try:
                outs.append(fn(tr, yy))
            except Exception as e:  # noqa
                v("op_raised", "%s raised %s: %s on valid data (%s)" % (
                    label, type(e).__name__, str(e)[:160], who), op=label, exc=type(e).__name__)
                return None
        return outs

    def after_fit():
        """remember the fitted seasonal components of the primary and check them against the
        classical decomposition of the training series"""
        nonlocal seasonal_ref, stale_seen
        seasonal_ref = None
        stale_seen = False
        if base["kind"] in ("deseason", "cdeseason") and kind != "ttf_t":
            inner = t.transformer_ if kind == "optional" else t
            seasonal_ref = np.asarray(inner.seasonal_, dtype=float).copy()
            # the fitted components themselves: the classical decomposition of the
            # training series, component j belonging to time points t0 + j (mod sp)
            indep = _independent_seasonal(y.iloc[:n_fit], base, inner)
            if indep is not None:
                res.probe("seasonal_fit_checked")
                if not np.allclose(seasonal_ref, indep, rtol=1e-7, atol=1e-9):
                    v("seasonal_components", "fitted seasonal components %s differ from the "
                      "classical decomposition of the training series %s (n=%d, sp=%d)" % (
                          np.round(seasonal_ref, 4).tolist(), np.round(indep, 4).tolist(),
                          n_fit, base.get("sp", 1)))
                    return False
        return True

    minlen_rt = _min_len(spec) if base["kind"] in ("hampel", "imputer") or kind == "ttf_t" else 2
    sc = sched.Scheduler("fifo", 0)
    with sched.scenario_schedule(sc):
        for i, op in enumerate(scen["ops"]):
            if res.violations:
                break
            res.ops += 1
            o = op["op"]
            if o == "fit":
                n_fit = op["n"]
                if spec.get("method") == "pearsonr":
                    try:
                        with peers.paused():
                            build(spec).fit(y.iloc[:n_fit])
                            build(spec).fit(y2.iloc[:n_fit])
                    except Exception:
                        res.probes["fit_not_possible"] = 1
                        break  # the lambda search itself failed on this sample: nothing to judge
                if both("fit", lambda tr, yy: tr.fit(yy.iloc[:n_fit])) is None:
                    break
                fitted, pos, updates_since_fit = True, n_fit, 0
                if not after_fit():
                    break
                digest.update(b"fit")
            elif o == "update":
                if not hasattr(t, "update"):
                    continue
                ov = min(op["overlap"], pos)
                a, b = pos - ov, pos + op["take"]
                if op.get("stale") and n_fit >= 12:
                    # a batch of already seen time points from the middle of the training series
                    a = 2 + op["take"] % 4
                    b = a + min(op["take"], 5)
                    res.probe("stale_update_inside_training")
                if op.get("before") and PRE:
                    # older observations, from before the training start into it, handed over
                    # late (update_params=False: nothing may be re-estimated)
                    a, b = -PRE, op["take"]
                    op = dict(op, up=False)
                    res.probe("update_with_older_data")
                if b > len(y):
                    continue
                probe_z = y.iloc[max(0, n_fit - 6):n_fit]
                before_t = None
                window_based = base["kind"] == "detrend" and (base.get("forecaster") or {}).get("kind") == "naive"
                if op.get("stale") or op.get("before"):
                    stale_seen = True
                if not op["up"] and not (window_based and stale_seen):
                    # (a window forecaster answers relative to its cutoff, which a stale batch
                    # moves back: what transform returns then legitimately differs)
                    try:
                        with peers.paused():
                            before_t = t.transform(probe_z.copy())
                    except Exception:
                        before_t = None
                if both("update", lambda tr, yy: tr.update(
                        (full if yy is y else full2).iloc[a + PRE:b + PRE], update_params=op["up"])) is None:
                    break
                if before_t is not None:
                    try:
                        with peers.paused():
                            after_t = t.transform(probe_z.copy())
                    except Exception:
                        after_t = None
                    if after_t is not None:
                        res.probe("frozen_update_checked")
                        if not _same(before_t, after_t):
                            v("update_without_params_changed_transform", "update(update_params=False) "
                              "changed what transform returns for a fixed stretch: %s -> %s" % (
                                  C.fmt(before_t), C.fmt(after_t)))
                            break
                pos = max(pos, b)
                updates_since_fit += 1
                res.fault("update_interleaved")
                if ov:
                    res.fault("overlap_batch")
                digest.update(b"update")
            elif o == "refit":
                # the same object fitted again on another stretch: everything learnt from the
                # first series (components, phase reference, lambda) must be replaced
                st = op["start"]
                if st + n_fit > len(y) - 4:
                    continue
                via = op.get("via", "fit")
                y_main, y2_main = y, y2
                if op.get("data") == "flat":
                    # the second training series has no seasonality and no trend at all
                    rs_ = np.random.RandomState(scen["series"]["seed"] + 77)
                    vals_ = np.round(50.0 + rs_.normal(scale=0.5, size=len(y)), 4)
                    y = pd.Series(vals_, index=y_main.index)
                    y2 = pd.Series(vals_, index=y2_main.index)
                    res.probe("refitted_on_structureless_series")
                if '"pearsonr"' in json.dumps(spec):
                    # (scipy's bracket search for the Pearson criterion can fail on a given
                    # sample: that is tolerated at fit, see the fit op)
                    try:
                        with peers.paused():
                            build(spec).fit(y.iloc[st:st + n_fit])
                            build(spec).fit(y2.iloc[st:st + n_fit])
                    except Exception:
                        y, y2 = y_main, y2_main
                        continue
                if via == "fit_transform":
                    # fit_transform on an already fitted object == fit(z).transform(z) of a new one
                    outs = both("fit_transform", lambda tr, yy: tr.fit_transform(
                        yy.iloc[st:st + n_fit].copy()))
                    if outs is None:
                        break
                    fresh = build(spec).fit(y.iloc[st:st + n_fit])
                    res.probe("fit_transform_on_fitted_instance")
                    exp_ = fresh.transform(y.iloc[st:st + n_fit].copy())
                    if not _same(outs[0], exp_):
                        v("stale_state_after_refit", "fit_transform on an already fitted transformer, "
                          "on a stretch starting %d points later, gives %s; fit(z).transform(z) of a "
                          "new one gives %s" % (st, C.fmt(outs[0]), C.fmt(exp_)), via="fit_transform")
                        break
                else:
                    if both("fit", lambda tr, yy: tr.fit(yy.iloc[st:st + n_fit])) is None:
                        break
                    fresh = build(spec).fit(y.iloc[st:st + n_fit])
                zz = y.iloc[st + 1: st + 1 + max(4, min(10, n_fit - 2))]
                try:
                    a_, b_ = t.transform(zz.copy()), fresh.transform(zz.copy())
                except Exception as e:  # noqa
                    v("op_raised", "transform after a second fit raised %s: %s" % (
                        type(e).__name__, str(e)[:120]), op="refit", exc=type(e).__name__)
                    break
                res.probe("refitted_on_other_stretch")
                if not _same(a_, b_):
                    v("stale_state_after_refit", "after a second fit on a stretch starting %d points "
                      "later the transformer gives %s, a fresh one fitted on that stretch gives %s"
                      % (st, C.fmt(a_), C.fmt(b_)))
                    y, y2 = y_main, y2_main
                    break
                if kind in INVERTIBLE and _base(spec)["kind"] != "passthrough" and \
                        hasattr(t, "inverse_transform") and not _ill_conditioned(t, spec):
                    try:
                        zi_ = t.inverse_transform(a_.copy())
                    except Exception as e:  # noqa
                        v("op_raised", "inverse_transform after a second fit raised %s" % type(e).__name__,
                          op="refit", exc=type(e).__name__)
                        y, y2 = y_main, y2_main
                        break
                    fin_ = np.isfinite(np.asarray(a_.values, float))
                    if not (C.same_index(zi_.index, zz.index) and np.allclose(
                            np.asarray(zi_.values, float)[fin_], zz.values[fin_], rtol=1e-6, atol=1e-8)):
                        v("roundtrip_values", "after a second fit: inverse_transform(transform(z)) is %s "
                          "for z = %s" % (C.fmt(zi_), C.fmt(zz)), where="refit", after_update=False)
                        y, y2 = y_main, y2_main
                        break
                y, y2 = y_main, y2_main
                # the rest of the history is judged against the first training series again
                if both("fit", lambda tr, yy: tr.fit(yy.iloc[:n_fit])) is None:
                    break
                fitted, pos, updates_since_fit = True, n_fit, 0
                if not after_fit():
                    break
            elif o == "reconfigure":
                # same object, another configuration, fitted again: must behave like a fresh
                # object with that configuration
                what = op.get("what", "passthrough")
                if what == "passthrough":
                    if kind != "optional":
                        continue
                    new_flag = not spec.get("passthrough", False)
                    spec = dict(spec, passthrough=new_flag)
                    new_params = {"passthrough": new_flag}
                else:
                    if _base0(spec)["kind"] not in ("deseason", "cdeseason") or kind == "ttf_t" \
                            or 2 * op["sp"] + 3 > n_fit or _base0(spec).get("sp") == op["sp"]:
                        continue
                    spec = _with_base(spec, sp=op["sp"])
                    path, sp_ = "sp", spec
                    while sp_["kind"] == "optional":
                        path, sp_ = "transformer__" + path, sp_["transformer"]
                    new_params = {path: op["sp"]}
                    res.probe("period_changed_and_refitted")
                base = _base(spec)
                if both("set_params+fit", lambda tr, yy: tr.set_params(**new_params).fit(
                        yy.iloc[:n_fit])) is None:
                    break
                fresh = build(spec).fit(y.iloc[:n_fit])
                zz = y.iloc[2:2 + max(4, min(10, n_fit - 2))]
                try:
                    a_, b_ = t.transform(zz.copy()), fresh.transform(zz.copy())
                except Exception as e:  # noqa
                    v("op_raised", "transform after reconfiguration raised %s" % type(e).__name__,
                      op="reconfigure", exc=type(e).__name__)
                    break
                res.probe("reconfigured_and_refitted")
                if not _same(a_, b_):
                    v("stale_state_after_refit", "after set_params(%s) and a second fit the "
                      "transformer gives %s, a fresh one with that configuration gives %s" % (
                          new_params, C.fmt(a_), C.fmt(b_)), what=what)
                    break
                fitted, pos, updates_since_fit = True, n_fit, 0
                if not after_fit():
                    break
            elif o == "failed_refit":
                # a second fit that raises inside (a missing value the trend regressor rejects):
                # a transformer that still reports is_fitted must still answer
                from sktime.exceptions import NotFittedError
                kind_of_failure = op.get("how", "nan")
                if kind_of_failure == "short":
                    bad = y.iloc[3:6].copy()          # far too short (and starting elsewhere)
                else:
                    bad = y.iloc[2:2 + n_fit].copy()
                    bad.iloc[min(op["pos"], n_fit - 1)] = np.nan
                probe_z = y.iloc[1:1 + max(minlen_rt, min(8, n_fit - 1))]
                try:
                    with peers.paused():
                        before_ = t.transform(probe_z.copy())
                except Exception:
                    before_ = None
                raised = False
                try:
                    with peers.paused():
                        t.fit(bad)
                except Exception:
                    raised = True
                if raised and getattr(t, "is_fitted", False):
                    res.probe("failed_refit_checked")
                    res.fault("fit_raises_midway")
                    try:
                        with peers.paused():
                            after_ = t.transform(probe_z.copy())
                    except NotFittedError as e:
                        v("op_raised", "after a second fit that raised the transformer reports "
                          "is_fitted True but transform raises NotFittedError (%s)" % str(e)[:80],
                          op="failed_refit", exc="NotFittedError")
                        break
                    except Exception:
                        after_ = None
                    # still claiming to be fitted: then on the series of its (only successful)
                    # fit, not on a mixture of that fit and the one that failed
                    if before_ is not None and after_ is not None and not _same(before_, after_):
                        v("stale_state_after_refit", "a second fit raised and the transformer still "
                          "reports is_fitted, but transform of a fixed stretch changed from %s to %s: "
                          "part of the failed fit was kept" % (C.fmt(before_), C.fmt(after_)),
                          what="failed_refit")
                        break
                # the history continues on a properly fitted pair
                if both("fit", lambda tr, yy: tr.fit(yy.iloc[:n_fit])) is None:
                    break
                fitted, pos, updates_since_fit = True, n_fit, 0
                if not after_fit():
                    break
            elif o == "sibling":
                # another transformer built from the very same constructor argument objects
                # (the user's scaler / forecaster / wrapped transformer), fitted on other data
                # between a transform and the matching inverse_transform: the transformer under
                # test owns private fitted copies, so the round trip is unaffected
                st = op["start"]
                invertible = kind in INVERTIBLE and _base(spec)["kind"] != "passthrough" \
                    and hasattr(t, "inverse_transform")
                w = y.iloc[1:1 + max(minlen_rt, min(8, n_fit - 1))]
                zt_before = None
                if invertible:
                    try:
                        zt_before = t.transform(w.copy())
                    except Exception:
                        zt_before = None
                for tr, yy in ((t, y), (t2, y2)):
                    try:
                        with peers.paused():
                            sib = type(tr)(**tr.get_params(deep=False))
                            zz_ = yy.iloc[st:st + n_fit] * 3.0 + 5.0
                            sib.fit(zz_)
                            sib.transform(zz_.copy())
                    except Exception:
                        pass
                res.probe("sibling_from_same_arguments")
                res.fault("shared_constructor_arguments")
                if zt_before is not None and not _ill_conditioned(t, spec):
                    try:
                        zi = t.inverse_transform(zt_before.copy())
                    except Exception as e:  # noqa
                        v("op_raised", "inverse_transform raised %s after another transformer was "
                          "built from the same arguments" % type(e).__name__, op="sibling",
                          exc=type(e).__name__)
                        break
                    fin = np.isfinite(np.asarray(zt_before.values, float))
                    if not (C.same_index(zi.index, w.index) and np.allclose(
                            np.asarray(zi.values, float)[fin], w.values[fin], rtol=1e-6, atol=1e-8)):
                        v("roundtrip_values", "inverse_transform(transform(z)) is %s for z = %s when "
                          "another transformer built from the same constructor arguments is fitted "
                          "in between" % (C.fmt(zi), C.fmt(w)), where="sibling", after_update=False)
                        break
            elif o == "unpaired":
                # a transform of one stretch followed by an inverse_transform of ANOTHER stretch
                # (same first time point, same number of points, other time points), or the other
                # way round: the second call must answer for the time points it is given, exactly
                # as a copy of the transformer that never saw the first call
                if not (kind in INVERTIBLE and _base(spec)["kind"] != "passthrough"
                        and hasattr(t, "inverse_transform")):
                    continue
                ln, stride = op["len"], op["stride"]
                if op["where"] == "inside":
                    a = min(op["off"], max(0, n_fit - 1))
                elif op["where"] == "overlap":
                    a = max(0, pos - 1 - op["off"] % max(1, ln))
                else:
                    a = pos + op["off"]
                if a + ln * stride > len(y):
                    continue
                w1, w2 = y.iloc[a:a + ln], y.iloc[a:a + ln * stride:stride]
                with peers.paused():
                    witness = C.pickle_roundtrip(t)
                first, second = ("transform", "inverse_transform") if op["first"] == "transform" \
                    else ("inverse_transform", "transform")
                try:
                    getattr(t, first)(w1.copy())
                    got = getattr(t, second)(w2.copy())
                    with peers.paused():
                        exp_ = getattr(witness, second)(w2.copy())
                except Exception as e:  # noqa
                    v("op_raised", "%s after %s on another stretch raised %s: %s" % (
                        second, first, type(e).__name__, str(e)[:120]), op="unpaired",
                      exc=type(e).__name__)
                    break
                res.probe("unpaired_calls_checked")
                if not (hasattr(got, "index") and C.same_index(got.index, w2.index)):
                    v("index_not_preserved", "%s returned index %s for input index %s (after a %s "
                      "of the stretch %s)" % (second, list(getattr(got, "index", []))[:6],
                                              list(w2.index[:6]), first, list(w1.index[:6])),
                      op="unpaired")
                    break
                if not _same(got, exp_):
                    v("answers_for_other_time_points", "%s of the time points %s gives %s after a %s "
                      "of the stretch %s, but %s on a copy that did not see that call" % (
                          second, list(w2.index[:6]), C.fmt(got), first, list(w1.index[:6]),
                          C.fmt(exp_)), op="unpaired", second=second)
                    break
            elif o == "other_instances":
                # elsewhere in the program other transformer objects are CONSTRUCTED (not used):
                # differently configured instances of classes that may also sit in the one under test
                with peers.paused():
                    try:
                        from sklearn.preprocessing import Binarizer, MinMaxScaler
                        from sktime.transformations.series.adapt import TabularToSeriesAdaptor
                        from sktime.transformations.series.boxcox import LogTransformer
                        from sktime.transformations.series.compose import OptionalPassthrough
                        from sktime.transformations.series.detrend import Deseasonalizer, Detrender
                        from sktime.transformations.series.impute import Imputer
                        made = [TabularToSeriesAdaptor(MinMaxScaler()), OptionalPassthrough(LogTransformer(), True),
                                Deseasonalizer(sp=7, model="multiplicative"), Detrender(), Imputer(method="mean"),
                                TabularToSeriesAdaptor(Binarizer())]   # (no inverse_transform)
                        res.probe("other_instances_constructed")
                        res.fault("other_instance_interleaved", len(made))
                    except Exception as e:  # noqa
                        digest.update(("other:%s" % type(e).__name__).encode())
            elif o == "pickle":
                with peers.paused():
                    t = C.pickle_roundtrip(t)
                    t2 = C.pickle_roundtrip(t2)
                res.fault("pickle_roundtrip")
                res.probe("pickle_midway")
            elif o == "fit_transform":
                # fit_transform == fit followed by transform, on fresh clones
                z = y.iloc[:n_fit]
                if op.get("strided") and 2 * n_fit <= len(y) and kind != "ttf_t" and \
                        _base0(spec)["kind"] in ("deseason", "cdeseason", "log", "boxcox", "adapt", "cos"):
                    z = y.iloc[:2 * n_fit:2]     # regularly spaced, but not consecutive, time points
                    res.probe("non_consecutive_training_index")
                try:
                    with peers.paused():
                        a_ = clone(t).fit_transform(z.copy())
                        b_ = clone(t).fit(z.copy()).transform(z.copy())
                except Exception as e:  # noqa
                    v("op_raised", "fit_transform raised %s: %s" % (type(e).__name__, str(e)[:160]),
                      op="fit_transform", exc=type(e).__name__)
                    break
                res.probe("fit_transform_checked")
                if not _same(a_, b_):
                    v("fit_transform_differs", "fit_transform(z) %s differs from fit(z).transform(z) %s"
                      % (C.fmt(a_), C.fmt(b_)))
            else:
                where = op["where"]
                ln = op["len"]
                if where == "start":
                    a = 0
                elif where == "before":
                    if not PRE:
                        continue
                    a = -(1 + op["off"] % PRE)   # starts before the first training time point
                elif where == "inside":
                    a = min(op["off"], max(0, n_fit - 1))
                elif where == "overlap":
                    a = max(0, pos - 1 - op["off"] % max(1, ln))
                else:
                    a = pos + op["off"]
                stride = op.get("stride", 1)
                b = min(len(y), a + ln * stride)

                def cut(yy, a=a, b=b, stride=stride):
                    return (full if yy is y else full2).iloc[a + PRE:b + PRE:stride]
                if b - a < 1 or cut(y).notna().sum() < 2:
                    continue
                if stride > 1:
                    res.probe("strided_stretch")
                res.probe({"inside": "stretch_inside_training", "start": "stretch_inside_training",
                           "overlap": "stretch_overlapping_end", "before": "stretch_before_training",
                           "after": "stretch_after_training"}[where])
                outs = both("transform", lambda tr, yy: tr.transform(cut(yy).copy()))
                if outs is None:
                    break
                zt, zt2 = outs
                z, z2 = cut(y), cut(y2)
                digest.update(C.digest_obj(zt).encode() if isinstance(zt, (pd.Series, pd.DataFrame))
                              else b"x")
                if a != 0 and (updates_since_fit or c != 0):
                    res.nontrivial = True
                if updates_since_fit:
                    res.probe("update_between_transforms")
                # shifted twin: same values, index shifted by c
                res.probe("shifted_twin_checked")
                if isinstance(zt, pd.Series) and isinstance(zt2, pd.Series):
                    if not C.same_values(zt.values, zt2.values):
                        v("shift_changes_values", "shifting the time index by %d changes transform: "
                          "%s vs %s" % (c, C.fmt(zt), C.fmt(zt2)), op="transform")
                        break
                    if kind in SAME_INDEX and not C.same_index(
                            np.asarray(zt.index) + c, np.asarray(zt2.index)):
                        v("shift_changes_index", "output index of the shifted input is not the "
                          "shifted output index", op="transform")
                        break
                # index-preserving
                if tag_same_index or kind in SAME_INDEX:
                    res.probe("index_preserving_checked")
                    if not (hasattr(zt, "index") and C.same_index(zt.index, z.index)):
                        v("index_not_preserved", "transform returned index %s for input index %s"
                          % (list(getattr(zt, "index", []))[:5], list(z.index[:5])))
                        break
                # seasonal phase: component at time t is seasonal_[(t - t0) mod sp]
                if seasonal_ref is not None and isinstance(zt, pd.Series):
                    sp = base.get("sp", 1)
                    t0 = int(y.index[0])
                    exp = np.array([seasonal_ref[(int(tt) - t0) % sp] for tt in z.index])
                    if base.get("model", "additive") == "additive":
                        got = z.values - zt.values
                    else:
                        got = z.values / zt.values
                    res.probe("seasonal_phase_checked")
                    if not np.allclose(got, exp, rtol=1e-7, atol=1e-9):
                        bad = int(np.argmax(~np.isclose(got, exp, rtol=1e-7, atol=1e-9)))
                        v("seasonal_phase", "at time %s the component removed is %.6g, the fitted "
                          "component for position (t-t0) mod %d = %d is %.6g (%d updates since fit)"
                          % (z.index[bad], got[bad], sp, (int(z.index[bad]) - t0) % sp, exp[bad],
                             updates_since_fit), after_update=updates_since_fit > 0)
                        break
                # round trip
                if kind in INVERTIBLE and _base(spec)["kind"] != "passthrough" or \
                        (kind == "optional" and hasattr(t, "inverse_transform")):
                    if not hasattr(t, "inverse_transform"):
                        continue
                    outs = both("inverse_transform", lambda tr, yy: tr.inverse_transform(
                        (zt if tr is t else zt2).copy()))
                    if outs is None:
                        break
                    zi = outs[0]
                    if _ill_conditioned(t, spec):
                        continue
                    res.probe("roundtrip_checked")
                    fin = np.isfinite(np.asarray(zt.values, float))
                    if not C.same_index(zi.index, z.index):
                        v("roundtrip_index", "inverse_transform(transform(z)) has index %s, z has %s"
                          % (list(zi.index[:5]), list(z.index[:5])))
                        break
                    if not np.allclose(np.asarray(zi.values, float)[fin], z.values[fin],
                                       rtol=1e-6, atol=1e-8):
                        bad = int(np.argmax(~np.isclose(np.asarray(zi.values, float), z.values,
                                                        rtol=1e-6, atol=1e-8) & fin))
                        v("roundtrip_values", "inverse_transform(transform(z)) at %s is %.8g, z is "
                          "%.8g (stretch %s, %d updates since fit)" % (
                              z.index[bad], float(zi.values[bad]), float(z.values[bad]), where,
                              updates_since_fit), where=where, after_update=updates_since_fit > 0)
                        break
            res.states.add(short_hash([o, pos, updates_since_fit]))
    res.digest = digest.hexdigest()[:16]
    return res


def _independent_seasonal(z, base, inner):
    from statsmodels.tsa.seasonal import seasonal_decompose
    sp = base.get("sp", 1)
    if base["kind"] == "cdeseason" and not getattr(inner, "is_seasonal_", False):
        return None
    try:
        dec = seasonal_decompose(z, model=base.get("model", "additive"), period=sp, filt=None,
                                 two_sided=True, extrapolate_trend=0)
    except Exception:
        return None
    # the component of time point t0 + j is the j-th value of the seasonal series
    return np.asarray(dec.seasonal.iloc[:sp], dtype=float)


def _ill_conditioned(t, spec):
    """Box-Cox with an extreme fitted lambda saturates in double precision (x**-12 is 0 for
    the data used here): the round trip is then not 'up to floating-point error' for reasons
    of conditioning, not of code."""
    def lam(o):
        for name in ("lambda_",):
            if hasattr(o, name) and getattr(o, name) is not None:
                return abs(float(getattr(o, name)))
        return 0.0
    objs = [t, getattr(t, "transformer_", None)]
    for st in getattr(t, "steps_", None) or []:
        objs.append(st[1])
        objs.append(getattr(st[1], "transformer_", None))
    return any(o is not None and lam(o) > 4.0 for o in objs)


def _same(a, b):
    if isinstance(a, pd.Series) and isinstance(b, pd.Series):
        return C.same_series(a, b)
    if isinstance(a, pd.DataFrame) and isinstance(b, pd.DataFrame):
        return a.shape == b.shape and C.same_values(a.values, b.values)
    try:
        return C.same_values(np.asarray(a, float), np.asarray(b, float))
    except Exception:
        return False


def shrink_candidates(prop, scen):
    s = json.loads(json.dumps(scen))
    ops = s["ops"]
    for cand in ddmin_list(ops[1:]):
        yield dict(s, ops=[ops[0]] + cand)
    if s["series"]["origin"]:
        yield dict(s, series=dict(s["series"], origin=0))
    if s["shift"] != 1:
        yield dict(s, shift=1)
    if s["series"]["index"] != "range":
        yield dict(s, series=dict(s["series"], index="range"))
    sp = s["spec"]
    if sp["kind"] == "optional":
        yield dict(s, spec=sp["transformer"])
    if sp["kind"] == "ttf_t":
        for t in sp["transformers"]:
            yield dict(s, spec=t)
    for i, op in enumerate(ops):
        if op["op"] == "roundtrip" and op["len"] > 2:
            yield dict(s, ops=ops[:i] + [dict(op, len=max(1, op["len"] // 2))] + ops[i + 1:])
        if op["op"] == "update" and op.get("overlap"):
            yield dict(s, ops=ops[:i] + [dict(op, overlap=0)] + ops[i + 1:])
