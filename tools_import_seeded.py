#!/usr/bin/env python3
"""Import seeded changes produced by a sub-agent: verify each one independently on a scratch
worktree (patch applies to HEAD, 108 baseline tests still pass, demo passes clean / fails
patched) and copy it to /verif/seeded/<PID>-<tag><k>/.
usage: tools_import_seeded.py /tmp/mut/out_C09_a C09 a"""
import json, os, re, shutil, subprocess, sys, tempfile
out, pid, tag = sys.argv[1], sys.argv[2], sys.argv[3]
HERE = os.path.dirname(os.path.abspath(__file__))
def sh(cmd, **kw): return subprocess.run(cmd, capture_output=True, text=True, **kw)
wt = tempfile.mkdtemp(prefix="wt_imp_", dir="/tmp"); os.rmdir(wt)
assert sh(["git", "-C", "/repo", "worktree", "add", "-q", wt, "HEAD"]).returncode == 0
try:
    for k in sorted(os.listdir(out)):
        d = os.path.join(out, k)
        if not os.path.isdir(d) or not os.path.exists(os.path.join(d, "patch.diff")):
            continue
        sh(["git", "-C", wt, "checkout", "--", "."])
        clean = sh(["/venv/bin/python", os.path.join(d, "demo.py"), wt], timeout=900)
        ap = sh(["git", "-C", wt, "apply", os.path.join(d, "patch.diff")])
        if ap.returncode:
            print(k, "PATCH DOES NOT APPLY", ap.stderr[-200:]); continue
        files = sh(["git", "-C", wt, "diff", "--stat"]).stdout.strip().splitlines()
        bad = sh(["/venv/bin/python", os.path.join(d, "demo.py"), wt], timeout=900)
        t = sh(["/venv/bin/python", "-m", "pytest", "-q", "-p", "no:cacheprovider", "sktime/utils",
                "--continue-on-collection-errors"], cwd=wt, timeout=1200)
        passed = re.findall(r"(\d+) passed", t.stdout)
        ok = clean.returncode == 0 and bad.returncode != 0 and passed[-1:] == ["108"]
        print("%s-%s%s clean=%d patched=%d baseline_passed=%s files=%s -> %s" % (
            pid, tag, k, clean.returncode, bad.returncode, passed[-1:], files[:-1], "KEEP" if ok else "REJECT"))
        if ok:
            dst = os.path.join(HERE, "seeded", "%s-%s%s" % (pid, tag, k))
            os.makedirs(dst, exist_ok=True)
            for f in ("patch.diff", "demo.py", "meta.json"):
                shutil.copy(os.path.join(d, f), dst)
            meta = json.load(open(os.path.join(dst, "meta.json")))
            meta["verified"] = {"demo_clean_rc": clean.returncode, "demo_patched_rc": bad.returncode,
                                "baseline_passed": 108, "files": [l.split("|")[0].strip() for l in files[:-1]],
                                "how": "tools_import_seeded.py on a scratch worktree of /repo HEAD"}
            json.dump(meta, open(os.path.join(dst, "meta.json"), "w"), indent=1)
finally:
    sh(["git", "-C", "/repo", "worktree", "remove", "--force", wt])
