# -*- coding: utf-8 -*-
"""Claimed properties (source for MANIFEST.json; run tools_manifest.py)."""
CLAIMED = {
 "C19": dict(level="fault_enumeration", ref="DESIGN.md section 7 C19",
   text="Real Orchestrator/HDDResults/RAMResults/strategies/tasks/datasets run against a scratch directory with spy estimators; for every sampled configuration every crash point k=1..N of the first run (k-th fit/predict raises) is enumerated, each followed by restart+resume+identical rerun, and compared after every run with an executable reference model of the store (file set, record contents vs an independent clone fit, untouched bytes, exact call list, registry read from a fresh load) and with an uninterrupted run. Sampling over configurations and option histories, exhaustive over crash points inside each.",
   note="Trusts: compat layer, spy estimators, sklearn KFold/train_test_split determinism with integer random_state, the sandbox filesystem. Fault model is the property's own (a fit/predict raises); torn/lost writes are out of scope.",
   technique="deterministic simulation: seeded run histories + enumerated crash/restart points against a reference store model"),
}
PENDING = {
 "C03": "claimed by DESIGN.md; check not yet built at this commit",
 "C04": "claimed by DESIGN.md; check not yet built at this commit",
 "C07": "claimed by DESIGN.md; check not yet built at this commit",
 "C08": "claimed by DESIGN.md; check not yet built at this commit",
 "C09": "claimed by DESIGN.md; check not yet built at this commit",
 "C10": "claimed by DESIGN.md; check not yet built at this commit",
 "C12": "claimed by DESIGN.md; check not yet built at this commit",
 "C13": "claimed by DESIGN.md; check not yet built at this commit",
 "C20": "claimed by DESIGN.md; check not yet built at this commit",
}
