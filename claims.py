# -*- coding: utf-8 -*-
"""Claimed properties (source for MANIFEST.json; run tools_manifest.py)."""
CLAIMED = {
 "C19": dict(level="fault_enumeration", ref="DESIGN.md section 7 C19",
   text="Real Orchestrator/HDDResults/RAMResults/strategies/tasks/datasets run against a scratch directory with spy estimators; for every sampled configuration every crash point k=1..N of the first run (k-th fit/predict raises) is enumerated, each followed by restart+resume+identical rerun, and compared after every run with an executable reference model of the store (file set, record contents vs an independent clone fit, untouched bytes, exact call list, registry read from a fresh load) and with an uninterrupted run. Sampling over configurations and option histories, exhaustive over crash points inside each.",
   note="Trusts: compat layer, spy estimators, sklearn KFold/train_test_split determinism with integer random_state, the sandbox filesystem. Fault model is the property's own (a fit/predict raises); torn/lost writes are out of scope.",
   technique="deterministic simulation: seeded run histories + enumerated crash/restart points against a reference store model"),
 "C10": dict(level="exploration", ref="DESIGN.md section 7 C10",
   text="Seeded call histories {fit, update(update_params), predict, update_predict_single, update_predict(cv), pickle} over real forecasters and composites with consecutive/overlapping/changed/empty batches, ensemble member fits under the simulated scheduler; after every step a reference model (dict time->value, cutoff, remembered horizon) is compared: remembered series == union (later wins), cutoff, refit-equivalence against a fresh twin fitted on everything seen (for forecasters that refit), parameter stability and batching invariance with update_params=False, update_predict == manual loop of single updates/predicts on a pickled copy, cutoff restored. Sampling, no enumeration.",
   note="Trusts compat layer; refit-equivalence only demanded of forecasters whose update refits; direct/recursive/dirrec reductions run with a stub regressor; forecasts made right after update_predict (restored cutoff, later parameters) are not judged.",
   technique="deterministic simulation: seeded operation histories + reference model/twin, simulated joblib schedule"),
 "C03": dict(level="exploration", ref="DESIGN.md section 7 C03",
   text="Same engine as C10 with a lock-step twin whose integer time index is shifted by a constant: after every fit/update the cutoff is checked, every predict is checked for length, exact labels (cutoff+step / requested absolute points), finiteness, independence of the value at step h from the other requested steps (gapped vs contiguous horizon on a pickled copy), and equality of values with the shifted twin, across horizons given at fit or predict and reused over moving cutoffs, including tuned forecasters and composites. Only the history-dependent clauses are simulation material; input-only clauses are exercised as far as the generated histories vary series, origins and horizons.",
   note="Integer RangeIndex/Index only (PeriodIndex arithmetic is broken under pandas 2; Timestamp.freq is gone); out-of-sample horizons; arima/bats/tbats/prophet not importable.",
   technique="deterministic simulation: seeded operation histories with lock-step shifted twin"),
}
PENDING = {
 "C04": "claimed by DESIGN.md; check not yet built at this commit",
 "C07": "claimed by DESIGN.md; check not yet built at this commit",
 "C08": "claimed by DESIGN.md; check not yet built at this commit",
 "C09": "claimed by DESIGN.md; check not yet built at this commit",
 "C12": "claimed by DESIGN.md; check not yet built at this commit",
 "C13": "claimed by DESIGN.md; check not yet built at this commit",
 "C20": "claimed by DESIGN.md; check not yet built at this commit",
}
