# -*- coding: utf-8 -*-
"""Claimed properties (source for MANIFEST.json; run tools_manifest.py)."""
CLAIMED = {
 "C19": dict(level="fault_enumeration", ref="DESIGN.md section 7 C19",
   text="Real Orchestrator/HDDResults/RAMResults/strategies/tasks/datasets run against a scratch directory with spy estimators; for every sampled configuration every crash point k=1..N of the first run (k-th fit/predict raises) is enumerated, each followed by restart+resume+identical rerun, and compared after every run with an executable reference model of the store (file set, record contents vs an independent clone fit, untouched bytes, exact call list, registry read from a fresh load) and with an uninterrupted run. Sampling over configurations and option histories, exhaustive over crash points inside each.",
   note="Trusts: compat layer, spy estimators, sklearn KFold/train_test_split determinism with integer random_state, the sandbox filesystem. Fault model is the property's own (a fit/predict raises); torn/lost writes are out of scope.",
   technique="deterministic simulation: seeded run histories + enumerated crash/restart points against a reference store model"),
 "C10": dict(level="exploration", ref="DESIGN.md section 7 C10",
   text="Seeded call histories {fit, update(update_params), predict, update_predict_single, update_predict(cv), pickle} over real forecasters and composites with consecutive/overlapping/changed/empty batches, ensemble member fits under the simulated scheduler; after every step a reference model (dict time->value, cutoff, remembered horizon) is compared: remembered series == union (later wins), cutoff, refit-equivalence against a fresh twin fitted on everything seen (for forecasters that refit), parameter stability and batching invariance with update_params=False, update_predict == manual loop of single updates/predicts on a pickled copy, cutoff restored. Sampling, no enumeration.",
   note="Trusts compat layer; refit-equivalence only demanded of forecasters whose update refits; direct/recursive/dirrec reductions run with a stub regressor; forecasts made right after update_predict (restored cutoff, later parameters) are not judged.",
   technique="deterministic simulation: seeded operation histories + reference model/twin, simulated joblib schedule"),
 "C03": dict(level="exploration", ref="DESIGN.md section 7 C03",
   text="Same engine as C10 with a lock-step twin whose integer time index is shifted by a constant: after every fit/update the cutoff is checked, every predict is checked for length, exact labels (cutoff+step / requested absolute points), finiteness, independence of the value at step h from the other requested steps (gapped vs contiguous horizon on a pickled copy), and equality of values with the shifted twin, across horizons given at fit or predict and reused over moving cutoffs, including tuned forecasters and composites. Only the history-dependent clauses are simulation material; input-only clauses are exercised as far as the generated histories vary series, origins and horizons.",
   note="Integer RangeIndex/Index only (PeriodIndex arithmetic is broken under pandas 2; Timestamp.freq is gone); out-of-sample horizons; arima/bats/tbats/prophet not importable.",
   technique="deterministic simulation: seeded operation histories with lock-step shifted twin"),
 "C07": dict(level="exploration", ref="DESIGN.md section 7 C07",
   text="evaluate() is run on a recording spy that wraps a real forecaster, with a simulated clock behind time.time (forward/backward jumps); the oracle replays the recorded call history against the splitter's own yields: one row per split, exact training window handed to fit/update, exactly one predict per fold for exactly the test points, no observation at or after the fold's first test point before its prediction (no-leak invariant over the event log), cutoff and window length per row, score == metric(y_true, y_pred) recomputed with named arguments on the recorded forecast (symmetric, asymmetric and order-sensitive scorers of both directions), returned data, and equality with an honest recomputation on a fresh clone (refit and update strategies, with and without X).",
   note="Splitter yields are taken as given (C01 not claimed). Times are never compared. Trusts compat layer incl. the mean_squared_error(squared=) shim.",
   technique="deterministic simulation: recorded call history of a spy peer vs reference replay, simulated clock"),
 "C08": dict(level="exploration", ref="DESIGN.md section 7 C08",
   text="Grid and randomized search over plain, pipeline (nested names) and multiplexer forecasters with metrics of both directions; candidate evaluation runs under the simulated joblib scheduler (FIFO, out-of-order, baton-passing interleaving at entries of repo functions; n_jobs and pre_dispatch varied). Oracle: candidate list == ParameterGrid/ParameterSampler order, every cv_results_ row == an independent sequential evaluate() of a clone, best_index_/best_score_/best_params_ attain the optimum in the declared direction (ties accepted), identical table for a sibling with another n_jobs/schedule, lock-step of the refitted tuner with a directly built best forecaster through predict/update/update_predict histories, NotFittedError for every method when refit=False.",
   note="Interleaving pre-empts only at entries of /repo functions; nested Parallel inside a task runs sequentially. Trusts compat layer.",
   technique="deterministic simulation: seeded schedules of parallel candidate evaluation (baton-passing threads) vs sequential reference"),
}
PENDING = {
 "C04": "claimed by DESIGN.md; check not yet built at this commit",
 "C09": "claimed by DESIGN.md; check not yet built at this commit",
 "C12": "claimed by DESIGN.md; check not yet built at this commit",
 "C13": "claimed by DESIGN.md; check not yet built at this commit",
 "C20": "claimed by DESIGN.md; check not yet built at this commit",
}
