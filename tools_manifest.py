#!/usr/bin/env python3
"""Generate MANIFEST.json from the table below (single source of truth)."""
import json, os
HERE = os.path.dirname(os.path.abspath(__file__))

NA = {
 "C01": "pure function of (n, fh, window, step, initial_window, flag): splitters are stateless index arithmetic; no history, schedule, clock, I/O or fault enters (exercised as components by C07/C08/C10)",
 "C02": "ForecastingHorizon conversions are pure functions of (steps, cutoff) on an immutable value object; its only hidden state (lru_cache) is exercised through C03/C10 histories",
 "C05": "reduction windowing is a pure data-flow function of (series, window, fh, regressor) inside one fit/predict call; the property quantifies over inputs and configurations only",
 "C06": "metric formulas are pure functions of arrays and options",
 "C11": "elementary forecast values vs textbook formulas: pure function of (series, configuration, horizon) after a single fit",
 "C14": "closed-form panel/series transformers are pure functions of their input",
 "C15": "container conversions are pure functions",
 "C16": "instance-wise independence / container equivalence is a metamorphic relation between pure function evaluations; its only schedule (Parallel in predict_proba) is covered under C12",
 "C17": "well-formed probabilities: pure function of (training panel, labels, seed, test panel)",
 "C18": "file round trips: writer and parser are deterministic functions of the panel / file bytes; the property states nothing about I/O faults, partial files or concurrent access, so a simulated disk would add vocabulary, not coverage",
}

def main():
    import importlib.util
    spec = importlib.util.spec_from_file_location("claims", os.path.join(HERE, "claims.py"))
    m = importlib.util.module_from_spec(spec); spec.loader.exec_module(m)
    claimed, pending = m.CLAIMED, m.PENDING
    checks = []
    for pid in sorted(claimed):
        c = claimed[pid]
        checks.append({
            "property_id": pid,
            "quick_cmd": "./check %s --tier quick" % pid,
            "thorough_cmd": "./check %s --tier thorough" % pid,
            "evidence_file": "evidence/%s.json" % pid,
            "replay_cmd_template": "./check %s --replay {path}" % pid,
            "engine": "simkit",
            "level_claimed": {"category": c["level"], "text": c["text"], "design_ref": c["ref"]},
            "level_note": c["note"],
            "technique": c["technique"],
        })
    na = [{"property_id": k, "reason": v} for k, v in sorted(NA.items())]
    na += [{"property_id": k, "reason": v} for k, v in sorted(pending.items())]
    man = {
        "version": 1,
        "setup_cmd": "./check --selftest compat",
        "hooks": {"guard": "SKTIME_VERIF",
                  "enable": "no source hooks exist: checks import /repo's working tree directly (VERIF_REPO overrides the path) behind /verif/simkit/compat.py; SKTIME_VERIF=1 is exported by ./check but read by nothing in /repo",
                  "baseline_off_cmd": "cd /repo && /venv/bin/python -m pytest -ra -q -p no:cacheprovider --timeout=900 --continue-on-collection-errors --junitxml=/tmp/baseline_off.junit.xml",
                  "source_commits": [], "add_only": True},
        "engines": [{"name": "simkit", "path": "simkit/",
                     "serves_properties": sorted(claimed),
                     "kind_free_text": "deterministic simulation with fault injection: seeded scenario generator, simulated joblib scheduler (OOO / baton-passing INTERLEAVE), simulated clock, scratch-directory disk with crash/restart, spy peers, reference models, ddmin shrinker, replay files"}],
        "checks": checks,
        "not_applicable": na,
        "notes": "See DESIGN.md. fix: commits in /repo and known findings are listed in known_findings.json.",
    }
    with open(os.path.join(HERE, "MANIFEST.json"), "w") as f:
        json.dump(man, f, indent=1)
    print("wrote MANIFEST.json: %d checks, %d not_applicable" % (len(checks), len(na)))

if __name__ == "__main__":
    main()
