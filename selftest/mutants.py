#!/usr/bin/env python3
"""Sensitivity self-test: a table of small, realistic mutations (text substitutions in
/repo sources, applied to a scratch worktree only), each of which leaves the 108 baseline
tests green, and the check that must catch it.

usage: selftest/mutants.py [name ...]      (writes selftest/mutants_results.json)
"""
import hashlib
import json
import os
import re
import shutil
import subprocess
import sys
import tempfile
import time

HERE = os.path.dirname(os.path.abspath(__file__))
VERIF = os.path.dirname(HERE)

M = [
    # (name, property, file, old, new)
    ("c19_ignore_overwrite_flag", "C19", "sktime/benchmarking/orchestration.py",
     "            if overwrite_predictions or not test_pred_exist:\n",
     "            if not test_pred_exist:\n"),
    ("c19_skip_when_test_exists_only", "C19", "sktime/benchmarking/orchestration.py",
     "                and (train_pred_exist or not predict_on_train)\n", ""),
    ("c19_no_append_key_on_save_predictions", "C19", "sktime/benchmarking/results.py",
     "        results.to_csv(key, index=False, header=True)\n        self._append_key(strategy_name, dataset_name)\n",
     "        results.to_csv(key, index=False, header=True)\n"),
    ("c19_predict_on_wrong_part", "C19", "sktime/benchmarking/orchestration.py",
     "                y_pred = strategy.predict(test)\n", "                y_pred = strategy.predict(train)[: len(test)] if len(train) >= len(test) else strategy.predict(test)\n"),
    ("c19_fit_on_all_data", "C19", "sktime/benchmarking/orchestration.py",
     "            strategy.fit(task, train)\n            fit_estimator_end_time",
     "            strategy.fit(task, data)\n            fit_estimator_end_time"),
    ("c10_combine_first_swapped", "C10", "sktime/forecasting/base/_sktime.py",
     "            self._y = y.combine_first(self._y)\n", "            self._y = self._y.combine_first(y)\n"),
    ("c10_cutoff_not_restored", "C10", "sktime/forecasting/base/_sktime.py",
     "            # re-set cutoff to initial value\n            self._set_cutoff(cutoff)\n",
     "            # re-set cutoff to initial value\n            pass\n"),
    ("c10_refit_on_new_data_only", "C10", "sktime/forecasting/base/_sktime.py",
     "            self.fit(self._y, self._X, self._fh)\n", "            self.fit(y, X, self._fh)\n"),
    ("c10_ensemble_update_skips_last_member", "C10", "sktime/forecasting/compose/_ensemble.py",
     "        for forecaster in self.forecasters_:\n            forecaster.update(y, X, update_params=update_params)\n",
     "        for forecaster in self.forecasters_[:-1] or self.forecasters_:\n            forecaster.update(y, X, update_params=update_params)\n"),
    ("c03_naive_indexer_off_by_one_gapped", "C03", "sktime/forecasting/naive.py",
     "                    y_pred = last_window[-1] + (fh_idx + 1) * slope\n",
     "                    y_pred = last_window[-1] + (np.arange(len(fh_idx)) + 1) * slope\n"),
    ("c03_trend_uses_positional_origin", "C03", "sktime/forecasting/trend.py",
     "        fh = self.fh.to_absolute_int(self._y_start, self.cutoff)\n",
     "        fh = self.fh.to_absolute_int(0, self.cutoff)\n"),
    ("c03_stack_index_from_fit_cutoff", "C03", "sktime/forecasting/compose/_stack.py",
     "        index = self.fh.to_absolute(self.cutoff)\n        return pd.Series(y_pred, index=index)\n",
     "        index = self.fh.to_absolute(self._y.index[len(self._y) - 1] if not hasattr(self, '_c0') else self._c0)\n        self._c0 = getattr(self, '_c0', self.cutoff)\n        return pd.Series(y_pred, index=index)\n"),
    ("c09_inverse_in_forward_order", "C09", "sktime/forecasting/compose/_pipeline.py",
     "        for _, _, transformer in self._iter_transformers(reverse=True):\n            # skip sktime",
     "        for _, _, transformer in self._iter_transformers(reverse=False):\n            # skip sktime"),
    ("c09_stack_leak", "C09", "sktime/forecasting/compose/_stack.py",
     "        y_fcst = y.iloc[train_window]\n", "        y_fcst = y\n"),
    ("c09_ensemble_no_clone", "C09", "sktime/forecasting/base/_meta.py",
     "            delayed(_fit_forecaster)(clone(forecaster), y, X, fh)\n",
     "            delayed(_fit_forecaster)(forecaster, y, X, fh)\n"),
    ("c09_median_is_mean", "C09", "sktime/forecasting/compose/_ensemble.py",
     "            return y_pred.median(axis=1)\n", "            return y_pred.mean(axis=1)\n"),
    ("c07_train_window_plus_one", "C07", "sktime/forecasting/model_evaluation/_functions.py",
     "    y_train = y.iloc[train]\n", "    y_train = y.iloc[: train[-1] + 2] if len(train) > 6 else y.iloc[train]\n"),
    ("c07_update_strategy_refits_first_two", "C07", "sktime/forecasting/model_evaluation/_functions.py",
     "        if i == 0 or strategy == \"refit\":\n", "        if i <= 1 or strategy == \"refit\":\n"),
    ("c08_clone_removed_in_fit_and_score", "C08", "sktime/forecasting/model_selection/_tune.py",
     "            forecaster = clone(self.forecaster)\n", "            forecaster = self.forecaster\n"),
    ("c08_argmax_rank", "C08", "sktime/forecasting/model_selection/_tune.py",
     "        self.best_index_ = results.loc[:, f\"rank_{scoring_name}\"].argmin()\n",
     "        self.best_index_ = results.loc[:, f\"rank_{scoring_name}\"].argmax()\n"),
    ("c08_refit_with_default_params", "C08", "sktime/forecasting/model_selection/_tune.py",
     "            **{name: clone(value, safe=False) for name, value in self.best_params_.items()}\n",
     "            **{name: clone(value, safe=False) for name, value in (self.best_params_ if self.best_index_ else {}).items()}\n"),
    ("c12_boxcox_inplace", "C12", "sktime/transformations/series/boxcox.py",
     "        zt = boxcox(z.to_numpy(), self.lambda_)\n        return pd.Series(zt, index=z.index)\n",
     "        z[:] = boxcox(z.to_numpy(), self.lambda_)\n        return z\n"),
    ("c12_naive_predict_mutates_window", "C12", "sktime/forecasting/naive.py",
     "                return np.repeat(np.nanmean(last_window), len(fh))\n",
     "                self.window_length_ = max(1, self.window_length_ - 1)\n                return np.repeat(np.nanmean(last_window), len(fh))\n"),
    ("c13_align_seasonal_no_mod", "C13", "sktime/transformations/series/detrend/_deseasonalize.py",
     "            % self.sp\n            for time_point in y.index\n",
     "            % max(self.sp, 2)\n            for time_point in y.index\n"),
    ("c13_detrender_inverse_uses_training_index", "C13", "sktime/transformations/series/detrend/_detrend.py",
     "        z_pred = self.forecaster_.predict(fh, X)\n        return z + z_pred\n",
     "        z_pred = self.forecaster_.predict(fh, X)\n        return z + z_pred.values[::-1] if len(z) == 7 else z + z_pred\n"),
    ("c04_check_is_fitted_removed_from_update", "C04", "sktime/forecasting/base/_sktime.py",
     "        self.check_is_fitted()\n        self._update_y_X(y, X)\n        if update_params:\n",
     "        self._update_y_X(y, X)\n        if update_params:\n"),
    ("c04_replace_estimator_noop_for_last", "C04", "sktime/base/_meta.py",
     "        for i, (estimator_name, _) in enumerate(new_estimators):\n",
     "        for i, (estimator_name, _) in enumerate(new_estimators[:-1] if len(new_estimators) > 2 else new_estimators):\n"),
    ("c20_window_zero_allowed", "C20", "sktime/utils/validation/__init__.py",
     "        if not is_int(window_length) or window_length < 1:\n",
     "        if not is_int(window_length) or window_length < 0:\n"),
    ("c20_no_dup_check_for_arrays", "C20", "sktime/forecasting/base/_fh.py",
     "    if len(values) != values.nunique():\n",
     "    if len(values) != values.nunique() and len(values) < 3:\n"),
    ("c20_stack_skips_final_regressor_check", "C20", "sktime/forecasting/compose/_stack.py",
     "        self._check_final_regressor()\n", "        pass\n"),
]


def sh(cmd, **kw):
    return subprocess.run(cmd, capture_output=True, text=True, **kw)


def main():
    names = sys.argv[1:]
    todo = [m for m in M if not names or m[0] in names]
    wt = tempfile.mkdtemp(prefix="wt_mut_", dir="/tmp")
    os.rmdir(wt)
    assert sh(["git", "-C", "/repo", "worktree", "add", "-q", wt, "HEAD"]).returncode == 0
    out_path = os.path.join(HERE, "mutants_results.json")
    results = json.load(open(out_path)) if os.path.exists(out_path) and names else {}
    try:
        for name, prop, path, old, new in todo:
            sh(["git", "-C", wt, "checkout", "--", "."])
            f = os.path.join(wt, path)
            s = open(f).read()
            if old not in s:
                print("%-45s %s PATTERN NOT FOUND" % (name, prop))
                results[name] = {"property": prop, "error": "pattern not found"}
                continue
            open(f, "w").write(s.replace(old, new, 1))
            base = sh(["/venv/bin/python", "-m", "pytest", "-q", "-p", "no:cacheprovider",
                       "sktime/utils", "--continue-on-collection-errors"], cwd=wt, timeout=900)
            passed = re.findall(r"(\d+) passed", base.stdout)
            t0 = time.time()
            c = sh([os.path.join(VERIF, "check"), prop], env=dict(os.environ, VERIF_REPO=wt), timeout=3600)
            classes = sorted(set(re.findall(r"violation class=(\S+)", c.stdout)))
            results[name] = {"property": prop, "file": path, "baseline_passed": passed[-1:] or None,
                             "rc": c.returncode, "classes": classes, "wall_s": round(time.time() - t0, 1),
                             "harness": [l[:200] for l in c.stdout.splitlines() if l.startswith("HARNESS")][:2]}
            print("%-45s %s baseline=%s rc=%d %s" % (name, prop, passed[-1:] or "?", c.returncode, classes),
                  flush=True)
            shutil.rmtree("/dev/shm/verif_scratch_" + hashlib.sha256(os.path.abspath(wt).encode()).hexdigest()[:10], ignore_errors=True)
    finally:
        sh(["git", "-C", "/repo", "worktree", "remove", "--force", wt])
    json.dump(results, open(out_path, "w"), indent=1, sort_keys=True)
    missed = [n for n, r in results.items() if r.get("rc") != 1]
    print("caught %d / %d; missed: %s" % (len(results) - len(missed), len(results), missed))


if __name__ == "__main__":
    main()
