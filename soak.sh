#!/bin/bash
# Sequential thorough-tier soak over all claimed properties at one VERIF_SEED.
# usage: soak.sh <VERIF_SEED> [budget seconds per property]
seed=${1:-1}; budget=${2:-300}
cd "$(dirname "$0")"
for p in C19 C10 C03 C09 C07 C08 C12 C13 C04 C20; do
  echo "=== $p VERIF_SEED=$seed tier=thorough budget=${budget}s"
  VERIF_SEED=$seed VERIF_BUDGET_S=$budget VERIF_WORKERS=${VERIF_WORKERS:-8} ./check $p --tier thorough 2>&1 | grep -v "^KNOWN-FINDING" | tail -6
  echo "exit=${PIPESTATUS[0]}"
done
